import Nanite.Model.Indent
/-!
# C03 / C06 / C10 / C09(cache) – the object model of `Indentation`
Theorems about `Nanite.Model.Indent` (provenance semantics), by induction over arbitrary finite
operation histories.  The numerical functions (preprocessing steps, optimiser, md5) are free: a
visible result is identified with the pipeline and the settings it was computed with.
-/
namespace Nanite.C03
open Nanite.Indent

/-- **results are current**: whatever is visible (results in fit_properties, fit columns) was
computed from the data columns as they are now and from the settings as they are stored now -/
structure Inv (s : St) : Prop where
  current : ∀ p, s.res = some p → p.cols = s.cols ∧ p.settings = s.fp
  cols : s.fitCols = s.res

theorem set_same (fp : Settings) (k : String) (v : V) (h : fp k = some v) : fp.set k v = fp := by
  funext k'
  unfold Settings.set
  split
  · rename_i hk; rw [hk, h]
  · rfl

theorem inv_of_no_res (s : St) (h1 : s.res = none) (h2 : s.fitCols = none) : Inv s :=
  { current := fun p hp => by rw [h1] at hp; cases hp
    cols := by rw [h1, h2] }

theorem inv_init : Inv init := inv_of_no_res _ rfl rfl

theorem action_storeSame (s : St) (k : String) (v : V) (h : action s k v = .storeSame) : s.fp k = some v := by
  unfold action at h
  split at h
  · split at h
    · rename_i hk
      subst hk
      split at h
      · rename_i m0 st0 m1 st1 hcur
        split at h
        · cases h
        · split at h
          · rename_i hms
            rw [hcur, hms.1, hms.2]
          · cases h
        · cases h
      · split at h
        · assumption
        · cases h
    · split at h
      · assumption
      · split at h
        · cases h
        · split at h <;> cases h
  · split at h <;> cases h

/-- `__setitem__` either discards the results or leaves every stored setting as it was -/
theorem setitem_res (s s' : St) (k : String) (v : V) (h : setitem s k v = .ok s') :
    (s'.res = none ∧ s'.fitCols = none ∧ s'.cols = s.cols) ∨
    (s'.fp = s.fp ∧ s'.res = s.res ∧ s'.fitCols = s.fitCols ∧ s'.cols = s.cols) := by
  unfold setitem at h
  cases ha : action s k (norm k v) with
  | keep => rw [ha] at h; injection h with h; subst h; right; exact ⟨rfl, rfl, rfl, rfl⟩
  | storeSame =>
    rw [ha] at h; injection h with h; subst h; right
    exact ⟨set_same _ _ _ (action_storeSame s k _ ha), rfl, rfl, rfl⟩
  | resetStore => rw [ha] at h; injection h with h; subst h; left; exact ⟨rfl, rfl, rfl⟩
  | modelChange => rw [ha] at h; injection h with h; subst h; left; exact ⟨rfl, rfl, rfl⟩
  | err e => rw [ha] at h; cases h

theorem setitem_inv (s s' : St) (k : String) (v : V) (hi : Inv s) (h : setitem s k v = .ok s') : Inv s' := by
  rcases setitem_res s s' k v h with ⟨h1, h2, _⟩ | ⟨h1, h2, h3, h4⟩
  · exact inv_of_no_res s' h1 h2
  · refine ⟨?_, by rw [h3, h2]; exact hi.cols⟩
    intro p hp
    rw [h2] at hp
    rw [h1, h4]
    exact hi.current p hp

theorem applyPre_inv (s : St) (steps : List Nat) (opts : String) (oe : List (Option Err)) (rd : Bool)
    (hi : Inv s) : Inv (applyPre s steps opts oe rd).1 := by
  unfold applyPre
  split
  · cases ppAccept steps oe with
    | ok u => exact inv_of_no_res _ rfl rfl
    | error e => exact inv_of_no_res _ rfl rfl
  · exact ⟨hi.current, hi.cols⟩

theorem applyKw_inv (kw : List (String × V)) (s : St) (hi : Inv s) : Inv (applyKw s kw).1 := by
  induction kw generalizing s with
  | nil => exact hi
  | cons p ps ih =>
    simp only [applyKw]
    cases h : setitem s p.1 p.2 with
    | ok s' => exact ih s' (setitem_inv s s' _ _ hi h)
    | error e => exact hi

theorem opt_setitem_inv (s : St) (k : String) (v : V) (hi : Inv s) :
    Inv (match setitem s k v with | .ok x => x | .error _ => s) := by
  cases h : setitem s k v with
  | ok s' => exact setitem_inv s s' _ _ hi h
  | error e => exact hi

theorem fitModel_inv (d : Settings) (s : St) (kw : List (String × V)) (oe : List (Option Err))
    (g : String → List String) (hi : Inv s) : Inv (fitModel d s kw oe g).1 := by
  unfold fitModel
  simp only
  -- step 1: preprocessing through fit_model
  generalize hs1 : (if (kwGet kw "preprocessing").isSome || (kwGet kw "preprocessing_options").isSome then
      applyPre s (match kwGet kw "preprocessing" with | some (.steps l) => l | _ => s.attrPre.steps)
        (match kwGet kw "preprocessing_options" with | some (.tok o) => o | _ => s.attrPre.opts) oe false
    else (s, .ok ())) = sr
  have hi1 : Inv sr.1 := by
    rw [← hs1]
    split
    · exact applyPre_inv _ _ _ _ _ hi
    · exact hi
  obtain ⟨s1, r1⟩ := sr
  simp only at hi1 ⊢
  cases r1 with
  | error e => exact hi1
  | ok u =>
    simp only
    have hi1b : Inv (if (s1.fp "model_key").isNone && (kwGet kw "model_key").isNone then
        (match setitem s1 "model_key" ((d "model_key").getD V.none) with | .ok x => x | .error _ => s1)
      else s1) := by
      split
      · exact opt_setitem_inv _ _ _ hi1
      · exact hi1
    generalize (if (s1.fp "model_key").isNone && (kwGet kw "model_key").isNone then
        (match setitem s1 "model_key" ((d "model_key").getD V.none) with | .ok x => x | .error _ => s1)
      else s1) = s1b at hi1b ⊢
    have hi2' := applyKw_inv (sortKw kw) s1b hi1b
    rcases hk2 : applyKw s1b (sortKw kw) with ⟨s3, oe2⟩
    rw [hk2] at hi2'
    cases oe2 with
    | some e => simp only; exact hi2'
    | none =>
      simp only
      have hi3 : Inv s3 := hi2'
      have hi4 : Inv (if s3.fp "params_initial" = none || s3.fp "params_initial" = some V.none then
          (match setitem s3 "params_initial" (V.params (match s3.fp "model_key" with
              | some (.tok m) => (m.drop 2).toString | _ => "") (g (match s3.fp "model_key" with
              | some (.tok m) => (m.drop 2).toString | _ => ""))) with
            | .ok x => x | .error _ => s3)
        else s3) := by
        split
        · exact opt_setitem_inv _ _ _ hi3
        · exact hi3
      generalize (if s3.fp "params_initial" = none || s3.fp "params_initial" = some V.none then
          (match setitem s3 "params_initial" (V.params (match s3.fp "model_key" with
              | some (.tok m) => (m.drop 2).toString | _ => "") (g (match s3.fp "model_key" with
              | some (.tok m) => (m.drop 2).toString | _ => ""))) with
            | .ok x => x | .error _ => s3)
        else s3) = s4 at hi4 ⊢
      split
      · exact hi4
      · split
        · exact hi4
        · exact ⟨fun p hp => by cases hp; exact ⟨rfl, rfl⟩, rfl⟩

theorem rate_inv (s : St) (r t n l : String) (hi : Inv s) : Inv (rate s r t n l).1 := by
  unfold rate
  split
  · exact hi
  · split
    · exact hi
    · exact ⟨hi.current, hi.cols⟩

theorem step_inv (d : Settings) (s : St) (op : Op) (hi : Inv s) : Inv (step d s op).1 := by
  cases op with
  | pp steps opts oe rd => exact applyPre_inv _ _ _ _ _ hi
  | fit kw oe g => exact fitModel_inv _ _ _ _ g hi
  | set k v =>
    simp only [step]
    cases h : setitem s k v with
    | ok s' => exact setitem_inv s s' _ _ hi h
    | error e => exact hi
  | rate r t n l => exact rate_inv _ _ _ _ _ hi
  | emod =>
    simp only [step, emod]
    split
    · exact hi
    · split
      · exact hi
      · exact ⟨hi.current, hi.cols⟩

/-- **C03, every history**: after any finite sequence of preprocessing calls, fits with any
keyword arguments, direct edits of fit settings, ratings and operations that raise, the visible
fit results (and the fit columns) are those of the data columns as they are and of the settings
as they are stored – results are never shown for other settings -/
theorem c03_results_current (d : Settings) (ops : List Op) : Inv (run d init ops) := by
  suffices h : ∀ s, Inv s → Inv (run d s ops) from h init inv_init
  induction ops with
  | nil => intro s hi; exact hi
  | cons op ops ih =>
    intro s hi
    simp only [run, List.foldl_cons]
    exact ih _ (step_inv d s op hi)

/-- repeating a fit with unchanged settings performs no new optimisation and changes nothing -/
theorem c03_repeat_is_noop (d : Settings) (s : St) (oe : List (Option Err)) (g : String → List String)
    (p : Prov) (m : String) (st : List String)
    (mk : V) (hres : s.res = some p) (hm : s.fp "model_key" = some mk)
    (hp : s.fp "params_initial" = some (.params m st)) :
    fitModel d s [] oe g = (s, .ok ()) := by
  simp [fitModel, kwGet, sortKw, applyKw, hm, hp, hres]

/-! ## C06 – preprocessing -/

/-- **a rejected request is never remembered as applied**: the curve does not report it, the
data are the raw data, and repeating the request is rejected again with the same error -/
theorem c06_rejected_not_remembered (s s' : St) (steps : List Nat) (opts : String)
    (oe : List (Option Err)) (rd : Bool) (e : Err) (h : applyPre s steps opts oe rd = (s', .error e)) :
    s'.fp "preprocessing" = none ∧ s'.fp "preprocessing_options" = none ∧ s'.cols = none ∧
    s'.res = none ∧ s'.fitCols = none ∧ (applyPre s' steps opts oe rd).2 = .error e := by
  unfold applyPre at h
  split at h
  · cases hacc : ppAccept steps oe with
    | ok u => rw [hacc] at h; simp at h
    | error e' =>
      rw [hacc] at h
      simp only [Prod.mk.injEq, Except.error.injEq] at h
      obtain ⟨hs, he⟩ := h
      subst hs; subst he
      refine ⟨by simp [ppFail, Settings.del], by simp [ppFail, Settings.del], rfl, rfl, rfl, ?_⟩
      have hn : needsApply (ppFail s) steps opts rd = true := by
        simp [needsApply, storedPipe, ppFail, Settings.del]
      unfold applyPre
      rw [if_pos hn, hacc]
  · simp at h

/-- after an accepted request the data columns are those of exactly that pipeline, and the curve
reports it -/
theorem c06_accepted_columns (s s' : St) (steps : List Nat) (opts : String) (oe : List (Option Err))
    (rd : Bool) (hcols : s.cols = storedPipe s) (h : applyPre s steps opts oe rd = (s', .ok ())) :
    s'.cols = some { steps := steps, opts := opts } ∧ storedPipe s' = some { steps := steps, opts := opts } := by
  unfold applyPre at h
  split at h
  · cases hacc : ppAccept steps oe with
    | error e => rw [hacc] at h; simp at h
    | ok u =>
      rw [hacc] at h
      simp only [Prod.mk.injEq, and_true] at h
      subst h
      exact ⟨rfl, by simp [storedPipe, ppOk, Settings.set]⟩
  · rename_i hn
    simp only [Prod.mk.injEq, and_true] at h
    subst h
    simp only [needsApply, Bool.or_eq_true, decide_eq_true_eq, not_or, Decidable.not_not] at hn
    exact ⟨by rw [hcols]; exact hn.1, hn.1⟩

/-- re-applying the same pipeline changes nothing (no step is executed again) -/
theorem c06_idempotent (s s' : St) (steps : List Nat) (opts : String) (oe : List (Option Err))
    (hcols : s.cols = storedPipe s) (h : applyPre s steps opts oe false = (s', .ok ())) :
    applyPre s' steps opts oe false = (s', .ok ()) := by
  have hst := (c06_accepted_columns s s' steps opts oe false hcols h).2
  have hattr : s'.attrPre = { steps := steps, opts := opts } := by
    unfold applyPre at h
    split at h
    · cases hacc : ppAccept steps oe with
      | error e => rw [hacc] at h; simp at h
      | ok u => rw [hacc] at h; simp only [Prod.mk.injEq, and_true] at h; subst h; rfl
    · simp only [Prod.mk.injEq, and_true] at h; subst h; rfl
  have hn : needsApply s' steps opts false = false := by
    simp [needsApply, hst]
  unfold applyPre
  rw [if_neg (by simp [hn])]
  congr 1
  cases s'
  simp only at hattr
  subst hattr
  rfl

/-! ## C09 – the rating cache -/

/-- a cached value is returned only while fit (hash provenance), regressor, training set, feature
selection and LDA flag are all unchanged -/
theorem c09_cache_sound (s : St) (r t n l : String) (h : (rate s r t n l).2 = true) :
    ∃ k, s.rating = some k ∧ sameProv k.prov s.res = true ∧ k.regressor = r ∧ k.trainingSet = t ∧
      k.names = n ∧ k.lda = l := by
  unfold rate at h
  split at h
  · simp at h
  · split at h
    · rename_i hc
      unfold cacheHit at hc
      cases hk : s.rating with
      | none => rw [hk] at hc; simp at hc
      | some k =>
        rw [hk] at hc
        simp only [Bool.and_eq_true, beq_iff_eq] at hc
        exact ⟨k, rfl, hc.1.1.1.1, hc.1.1.1.2, hc.1.1.2, hc.1.2, hc.2⟩
    · simp at h

/-- the pseudo-regressor "none" neither uses nor touches the cache -/
theorem c09_none_regressor (s : St) (t n l : String) :
    rate s "none" t n l = (s, false) ∧ rate s "None" t n l = (s, false) := by
  have h1 : isNoneName "none" = true := by decide
  have h2 : isNoneName "None" = true := by decide
  simp [rate, h1, h2]

/-- (re-)applying a preprocessing pipeline clears the cached rating -/
theorem c09_cache_reset_on_pp (s : St) (steps : List Nat) (opts : String) (oe : List (Option Err))
    (rd : Bool) (h : needsApply s steps opts rd = true) : (applyPre s steps opts oe rd).1.rating = none := by
  unfold applyPre
  rw [if_pos h]
  cases ppAccept steps oe <;> rfl

/-- a value computed now is cached under the current key, and an immediate repeat is served from
the cache without computing again -/
theorem c09_repeat_cached (s : St) (r t n l : String) (hr : isNoneName r = false)
    (hself : ∀ p, sameProv p p = true) :
    (rate (rate s r t n l).1 r t n l).2 = true ∧
    (rate (rate s r t n l).1 r t n l).1.nrates = (rate s r t n l).1.nrates := by
  unfold rate
  simp only [hr, Bool.false_eq_true, ↓reduceIte]
  by_cases hc : cacheHit s r t n l = true
  · simp [hc, hr]
  · simp only [hc, Bool.false_eq_true, ↓reduceIte]
    have : cacheHit (withRating s r t n l) r t n l = true := by
      simp [cacheHit, withRating, hself]
    simp [this, hr]

theorem sameProv_refl (p : Option Prov) : sameProv p p = true := by
  cases p with
  | none => rfl
  | some a => simp [sameProv]


/-! ## C06 – the data columns are a function of the stored pipeline, for every history
(partial: histories in which the two preprocessing settings are not edited directly through
`fit_properties[...] = …` and preprocessing is requested through `apply_preprocessing`; the direct
edit is the recorded finding, see `Witness/C03`) -/

def ColsInv (s : St) : Prop := s.cols = storedPipe s

def ppKey (k : String) : Bool := k == "preprocessing" || k == "preprocessing_options"

theorem perform_keeps (s s' : St) (k : String) (v : V) (a : Action) (hk : ppKey k = false)
    (h : perform s k v a = .ok s') : storedPipe s' = storedPipe s ∧ s'.cols = s.cols := by
  simp only [ppKey, Bool.or_eq_false_iff, beq_eq_false_iff_ne, ne_eq] at hk
  have h1 : ("preprocessing" = k) = False := by simp [Ne.symm hk.1]
  have h2 : ("preprocessing_options" = k) = False := by simp [Ne.symm hk.2]
  cases a <;> simp only [perform] at h
  all_goals first
    | (cases h; done)
    | (injection h with h; subst h
       simp [storedPipe, Settings.set, reset, h1, h2])

theorem setitem_keeps (s s' : St) (k : String) (v : V) (hk : ppKey k = false)
    (h : setitem s k v = .ok s') : storedPipe s' = storedPipe s ∧ s'.cols = s.cols :=
  perform_keeps s s' k _ _ hk h

theorem setitem_colsInv (s s' : St) (k : String) (v : V) (hk : ppKey k = false) (hc : ColsInv s)
    (h : setitem s k v = .ok s') : ColsInv s' := by
  obtain ⟨h1, h2⟩ := setitem_keeps s s' k v hk h
  unfold ColsInv; rw [h1, h2]; exact hc

theorem applyPre_colsInv (s : St) (steps : List Nat) (opts : String) (oe : List (Option Err)) (rd : Bool)
    (hc : ColsInv s) : ColsInv (applyPre s steps opts oe rd).1 := by
  unfold applyPre
  split
  · cases ppAccept steps oe with
    | ok u => simp [ColsInv, storedPipe, ppOk, Settings.set]
    | error e => simp [ColsInv, storedPipe, ppFail, Settings.del]
  · exact hc

/-- operations of the restricted alphabet -/
def plainOp : Op → Bool
  | .pp _ _ _ _ => true
  | .fit kw _ _ => kw.all (fun p => !ppKey p.1)
  | .set k _ => !ppKey k
  | .rate _ _ _ _ => true
  | .emod => true

theorem applyKw_colsInv (kw : List (String × V)) (s : St) (hk : ∀ p ∈ kw, ppKey p.1 = false)
    (hc : ColsInv s) : ColsInv (applyKw s kw).1 := by
  induction kw generalizing s with
  | nil => exact hc
  | cons p ps ih =>
    simp only [applyKw]
    cases h : setitem s p.1 p.2 with
    | ok s' =>
      exact ih s' (fun q hq => hk q (List.mem_cons_of_mem _ hq))
        (setitem_colsInv s s' _ _ (hk p List.mem_cons_self) hc h)
    | error e => exact hc

theorem mem_insertKw (p q : String × V) (l : List (String × V)) (h : q ∈ insertKw p l) : q = p ∨ q ∈ l := by
  induction l with
  | nil => simp [insertKw] at h; exact Or.inl h
  | cons x xs ih =>
    simp only [insertKw] at h
    split at h
    · simp only [List.mem_cons] at h ⊢; exact h
    · simp only [List.mem_cons] at h ⊢
      rcases h with h | h
      · exact Or.inr (Or.inl h)
      · rcases ih h with h | h
        · exact Or.inl h
        · exact Or.inr (Or.inr h)

theorem mem_sortKw (q : String × V) (l : List (String × V)) (h : q ∈ sortKw l) : q ∈ l := by
  induction l with
  | nil => simp [sortKw] at h
  | cons x xs ih =>
    simp only [sortKw] at h
    rcases mem_insertKw x q _ h with h | h
    · subst h; exact List.mem_cons_self
    · exact List.mem_cons_of_mem _ (ih h)

theorem opt_setitem_colsInv (s : St) (k : String) (v : V) (hk : ppKey k = false) (hc : ColsInv s) :
    ColsInv (match setitem s k v with | .ok x => x | .error _ => s) := by
  cases h : setitem s k v with
  | ok s' => exact setitem_colsInv s s' _ _ hk hc h
  | error e => exact hc

/-- the fitter-side treatment of `range_x` touches no other key -/
theorem fitterFp_other (fp d : Settings) (k : String) (hk : k ≠ "range_x") : fitterFp fp d k = fp k := by
  unfold fitterFp
  cases fp "range_x" with
  | none => rfl
  | some v =>
    cases d "range_x" with
    | none => rfl
    | some dv =>
      simp only
      split
      · simp [Settings.set, hk]
      · rfl

theorem fitModel_colsInv (d : Settings) (s : St) (kw : List (String × V)) (oe : List (Option Err))
    (g : String → List String)
    (hk : kw.all (fun p => !ppKey p.1) = true) (hc : ColsInv s) : ColsInv (fitModel d s kw oe g).1 := by
  have hk' : ∀ p ∈ kw, ppKey p.1 = false := by
    intro p hp
    have := List.all_eq_true.mp hk p hp
    simpa using this
  have hks : ∀ p ∈ sortKw kw, ppKey p.1 = false := fun p hp => hk' p (mem_sortKw p kw hp)
  have hnone1 : kwGet kw "preprocessing" = none := by
    unfold kwGet
    rw [Option.map_eq_none_iff, List.find?_eq_none]
    intro p hp hpe
    have := hk' p hp
    simp only [beq_iff_eq] at hpe
    simp [ppKey, hpe] at this
  have hnone2 : kwGet kw "preprocessing_options" = none := by
    unfold kwGet
    rw [Option.map_eq_none_iff, List.find?_eq_none]
    intro p hp hpe
    have := hk' p hp
    simp only [beq_iff_eq] at hpe
    simp [ppKey, hpe] at this
  unfold fitModel
  simp only [hnone1, hnone2, Option.isSome_none, Bool.or_self, Bool.false_eq_true, ↓reduceIte]
  have hc1b : ColsInv (if (s.fp "model_key").isNone && (kwGet kw "model_key").isNone then
      (match setitem s "model_key" ((d "model_key").getD V.none) with | .ok x => x | .error _ => s)
    else s) := by
    split
    · exact opt_setitem_colsInv _ _ _ (by decide) hc
    · exact hc
  generalize (if (s.fp "model_key").isNone && (kwGet kw "model_key").isNone then
      (match setitem s "model_key" ((d "model_key").getD V.none) with | .ok x => x | .error _ => s)
    else s) = s1b at hc1b ⊢
  have hc2' := applyKw_colsInv (sortKw kw) s1b hks hc1b
  rcases hk2 : applyKw s1b (sortKw kw) with ⟨s3, oe2⟩
  rw [hk2] at hc2'
  cases oe2 with
  | some e => simp only; exact hc2'
  | none =>
    simp only
    have hc3 : ColsInv s3 := hc2'
    have hc4 : ColsInv (if s3.fp "params_initial" = none || s3.fp "params_initial" = some V.none then
        (match setitem s3 "params_initial" (V.params (match s3.fp "model_key" with
            | some (.tok m) => (m.drop 2).toString | _ => "") (g (match s3.fp "model_key" with
            | some (.tok m) => (m.drop 2).toString | _ => ""))) with
          | .ok x => x | .error _ => s3)
      else s3) := by
      split
      · exact opt_setitem_colsInv _ _ _ (by decide) hc3
      · exact hc3
    generalize (if s3.fp "params_initial" = none || s3.fp "params_initial" = some V.none then
        (match setitem s3 "params_initial" (V.params (match s3.fp "model_key" with
            | some (.tok m) => (m.drop 2).toString | _ => "") (g (match s3.fp "model_key" with
            | some (.tok m) => (m.drop 2).toString | _ => ""))) with
          | .ok x => x | .error _ => s3)
      else s3) = s4 at hc4 ⊢
    split
    · exact hc4
    · cases hcc : ctorCheck s4 (fitterFp (withDefaults s4.fp d) d) with
      | error e => simp only; exact hc4
      | ok u =>
        simp only
        -- a fit only runs on preprocessed data; the stored pipeline is therefore present and
        -- filling in the defaults does not touch it
        unfold ColsInv at hc4 ⊢
        simp only
        have hsome : ∃ p, s4.cols = some p := by
          unfold ctorCheck at hcc
          cases hcols : s4.cols with
          | none => simp [hcols] at hcc
          | some p => exact ⟨p, rfl⟩
        obtain ⟨p, hp⟩ := hsome
        rw [hp] at hc4
        rw [hp]
        unfold storedPipe at hc4 ⊢
        cases h1 : s4.fp "preprocessing" with
        | none => rw [h1] at hc4; simp at hc4
        | some v1 =>
          cases h2' : s4.fp "preprocessing_options" with
          | none =>
            rw [h1, h2'] at hc4
            cases v1 <;> simp at hc4
          | some v2 =>
            rw [h1, h2'] at hc4
            simp only [fitterFp_other _ _ "preprocessing" (by decide),
              fitterFp_other _ _ "preprocessing_options" (by decide), withDefaults, h1, h2']
            exact hc4

theorem step_colsInv (d : Settings) (s : St) (op : Op) (hop : plainOp op = true) (hc : ColsInv s) :
    ColsInv (step d s op).1 := by
  cases op with
  | pp steps opts oe rd => exact applyPre_colsInv _ _ _ _ _ hc
  | fit kw oe g => exact fitModel_colsInv d s kw oe g hop hc
  | set k v =>
    simp only [step]
    cases h : setitem s k v with
    | ok s' => exact setitem_colsInv s s' k v (by simpa [plainOp] using hop) hc h
    | error e => exact hc
  | rate r t n l =>
    simp only [step, rate]
    split
    · exact hc
    · split
      · exact hc
      · exact hc
  | emod =>
    simp only [step, emod]
    split
    · exact hc
    · split
      · exact hc
      · exact hc

/-- **C06, every history (partial)**: the data columns are exactly those of the pipeline the curve
reports (raw data when it reports none) – they depend on nothing else that happened before -/
theorem c06_columns_function_of_pipeline_partial (d : Settings) (ops : List Op)
    (hops : ops.all plainOp = true) : ColsInv (run d init ops) := by
  suffices h : ∀ s, ColsInv s → ColsInv (run d s ops) from h init rfl
  induction ops with
  | nil => intro s hc; exact hc
  | cons op ops ih =>
    intro s hc
    simp only [List.all_cons, Bool.and_eq_true] at hops
    simp only [run, List.foldl_cons]
    exact ih hops.2 _ (step_colsInv d s op hops.1 hc)

/-- corollary: whenever results are visible they were computed from the reported pipeline and the
stored settings – what a fresh copy with only those applied computes -/
theorem c03_fresh_equiv_partial (d : Settings) (ops : List Op) (hops : ops.all plainOp = true) (p : Prov)
    (h : (run d init ops).res = some p) :
    p.cols = storedPipe (run d init ops) ∧ p.settings = (run d init ops).fp := by
  have h1 := (c03_results_current d ops).current p h
  have h2 := c06_columns_function_of_pipeline_partial d ops hops
  exact ⟨by rw [h1.1]; exact h2, h1.2⟩

end Nanite.C03
