import Nanite.Model.Legacy
import Nanite.Gen.Profile
/-!
# C19 – "legacy key=value profiles load to the same values as their JSON form"
Theorems about the model of `Profile.load_legacy` (`Model/Legacy.lean`), for EVERY key text, value
text and white-space padding:

* a line is split at its FIRST `=`: a value may itself contain `=` (a path such as
  `.../k=0.05/ts`) and is still read completely (`c19_legacy_line`);
* padding around key and value is irrelevant; `segment = approach|retract` reads as `0|1`;
* a later line for the same key replaces the earlier one, other keys are untouched;
* text-typed settings are stored verbatim, `vary` entries as the boolean `lower() == "true"`;
  hence a text-typed entry written as `key = text` loads to exactly the JSON value
  (`c19_legacy_str_roundtrip`).
Numeric conversions (`float()`, `int()`) are not modelled; the harness compares the tokens as numbers.
-/
namespace Nanite.C19Legacy
open Nanite.Legacy Nanite.Profile

def AllWs (p : List Char) : Prop := ∀ c ∈ p, isWs c = true

/-- no leading and no trailing white space (what `strip` returns) -/
def Stripped (x : List Char) : Prop :=
  (∀ h, x.head? = some h → isWs h = false) ∧ (∀ l, x.getLast? = some l → isWs l = false)

theorem dropWhile_allWs {p : List Char} (h : AllWs p) (x : List Char) :
    (p ++ x).dropWhile isWs = x.dropWhile isWs := by
  induction p with
  | nil => rfl
  | cons c cs ih =>
    have hc : isWs c = true := h c (by simp)
    simp only [List.cons_append, List.dropWhile_cons, hc, ↓reduceIte]
    exact ih (fun d hd => h d (by simp [hd]))

theorem dropWhile_allWs_nil {p : List Char} (h : AllWs p) : p.dropWhile isWs = [] := by
  have := dropWhile_allWs h []
  simpa using this

theorem dropWhile_stop (xs ys : List Char) (c : Char) (hc : isWs c = false) :
    (xs ++ c :: ys).dropWhile isWs = xs.dropWhile isWs ++ c :: ys := by
  induction xs with
  | nil => simp [hc]
  | cons d ds ih =>
    by_cases hd : isWs d = true
    · simp only [List.cons_append, List.dropWhile_cons, hd, ↓reduceIte]; exact ih
    · simp [hd]

theorem lstrip_pad {p : List Char} (h : AllWs p) (x : List Char) : lstrip (p ++ x) = lstrip x :=
  dropWhile_allWs h x

theorem lstrip_of_head {x : List Char} (h : ∀ c, x.head? = some c → isWs c = false) : lstrip x = x := by
  cases x with
  | nil => rfl
  | cons c cs => simp [lstrip, h c rfl]

theorem rstrip_pad {q : List Char} (h : AllWs q) (x : List Char) : rstrip (x ++ q) = rstrip x := by
  unfold rstrip
  rw [List.reverse_append]
  rw [dropWhile_allWs (p := q.reverse) (fun c hc => h c (List.mem_reverse.mp hc))]

theorem rstrip_of_last {x : List Char} (h : ∀ c, x.getLast? = some c → isWs c = false) : rstrip x = x := by
  unfold rstrip
  have : x.reverse.dropWhile isWs = x.reverse := by
    apply lstrip_of_head
    intro c hc
    apply h c
    simpa [List.head?_reverse] using hc
  rw [this, List.reverse_reverse]

theorem rstrip_allWs {q : List Char} (h : AllWs q) : rstrip q = [] := by
  have := rstrip_pad h []
  simpa [rstrip] using this

/-- `rstrip` does not pass a non-blank character -/
theorem rstrip_stop (A B : List Char) (c : Char) (hc : isWs c = false) :
    rstrip (A ++ c :: B) = A ++ c :: rstrip B := by
  unfold rstrip
  have : (A ++ c :: B).reverse = B.reverse ++ c :: A.reverse := by simp
  rw [this, dropWhile_stop _ _ _ hc]
  simp

/-- `strip` removes exactly the padding -/
theorem strip_pad {p q x : List Char} (hp : AllWs p) (hq : AllWs q) (hx : Stripped x) :
    strip (p ++ x ++ q) = x := by
  unfold strip
  rw [List.append_assoc, lstrip_pad hp]
  cases x with
  | nil =>
    have : lstrip ([] ++ q) = [] := by simpa [lstrip] using dropWhile_allWs_nil hq
    rw [this]; rfl
  | cons c cs =>
    rw [lstrip_of_head (x := (c :: cs) ++ q) (by intro d hd; exact hx.1 d (by simpa using hd))]
    rw [rstrip_pad hq, rstrip_of_last hx.2]

/-- **split at the first `=`**: whatever follows it (further `=` included) is the value -/
theorem c19_legacy_split_first (k v : List Char) (hk : '=' ∉ k) :
    splitFirst (k ++ '=' :: v) = some (k, v) := by
  induction k with
  | nil => simp [splitFirst]
  | cons c cs ih =>
    have hc : (c == '=') = false := by
      simp only [beq_eq_false_iff_ne, ne_eq]
      intro h; exact hk (by simp [h])
    simp only [List.cons_append, splitFirst, hc]
    rw [ih (fun h => hk (by simp [h]))]
    simp

/-- a line without `=` is rejected (Python: ValueError on unpacking) -/
theorem c19_legacy_no_equals (cs : List Char) (h : '=' ∉ cs) : splitFirst cs = none := by
  induction cs with
  | nil => rfl
  | cons c cs ih =>
    have hc : (c == '=') = false := by
      simp only [beq_eq_false_iff_ne, ne_eq]
      intro e; exact h (by simp [e])
    simp only [splitFirst, hc]
    rw [ih (fun e => h (by simp [e]))]
    simp

theorem allWs_no_eq {p : List Char} (h : AllWs p) : '=' ∉ p := by
  intro hm
  have := h _ hm
  revert this; decide

/-- **one line of a legacy profile**: for every key text `k` (non-empty, stripped, without `=`),
every stripped value text `v` — possibly containing `=` — and every white-space padding, the line
contributes exactly `(k, v)` (with the pre-1.8.0 segment names translated). -/
theorem c19_legacy_line (p1 p2 p3 p4 k v : List Char) (h1 : AllWs p1) (h2 : AllWs p2)
    (h3 : AllWs p3) (h4 : AllWs p4) (hk0 : k ≠ []) (hk : Stripped k) (hkeq : '=' ∉ k)
    (hv : Stripped v) :
    parseLine (p1 ++ k ++ p2 ++ '=' :: (p3 ++ v ++ p4)) = some (k, normSegment k v) := by
  have hkhead : ∀ c, (k ++ p2 ++ '=' :: (p3 ++ v ++ p4)).head? = some c → isWs c = false := by
    intro c hc
    cases k with
    | nil => exact absurd rfl hk0
    | cons d ds => exact hk.1 c (by simpa using hc)
  have hstrip : strip (p1 ++ k ++ p2 ++ '=' :: (p3 ++ v ++ p4)) =
      (k ++ p2) ++ '=' :: rstrip (p3 ++ v ++ p4) := by
    unfold strip
    have e : p1 ++ k ++ p2 ++ '=' :: (p3 ++ v ++ p4) = p1 ++ (k ++ p2 ++ '=' :: (p3 ++ v ++ p4)) := by
      simp
    rw [e, lstrip_pad h1, lstrip_of_head hkhead]
    exact rstrip_stop (k ++ p2) (p3 ++ v ++ p4) '=' (by decide)
  have hR : strip (rstrip (p3 ++ v ++ p4)) = v := by
    cases v with
    | nil =>
      have : AllWs (p3 ++ [] ++ p4) := by
        intro c hc
        simp only [List.append_nil, List.mem_append] at hc
        exact hc.elim (h3 c) (h4 c)
      rw [rstrip_allWs this]; rfl
    | cons c cs =>
      rw [rstrip_pad h4, rstrip_of_last (x := p3 ++ c :: cs)
        (by intro d hd; exact hv.2 d (by simpa [List.getLast?_append] using hd))]
      have := strip_pad (p := p3) (q := []) (x := c :: cs) h3 (by intro _ h; cases h) hv
      simpa using this
  have hA : strip (k ++ p2) = k := by
    have := strip_pad (p := []) (q := p2) (x := k) (by intro _ h; cases h) h2 hk
    simpa using this
  have hnoeq : '=' ∉ k ++ p2 := by
    intro h
    rcases List.mem_append.mp h with h | h
    · exact hkeq h
    · exact allWs_no_eq h2 h
  unfold parseLine
  rw [hstrip, c19_legacy_split_first _ _ hnoeq]
  simp only [hA, hR]

/-- pre-1.8.0 profiles: `segment = approach` reads as 0, `segment = retract` as 1 -/
theorem c19_legacy_segment_approach :
    normSegment "segment".toList "approach".toList = "0".toList := by simp [normSegment]

theorem c19_legacy_segment_retract :
    normSegment "segment".toList "retract".toList = "1".toList := by simp [normSegment]

/-- every other key keeps its text -/
theorem c19_legacy_segment_other (k v : List Char) (h : k ≠ "segment".toList) :
    normSegment k v = v := by
  unfold normSegment
  rw [if_neg h]

/-- a later line for the same key replaces the earlier one -/
theorem c19_legacy_later_wins (d : List (List Char × List Char)) (k v : List Char) :
    lookupRaw (insertKV d k v) k = some v := by
  simp [lookupRaw, insertKV]

/-- … and does not touch any other key -/
theorem c19_legacy_other_keys (d : List (List Char × List Char)) (k k' v : List Char) (h : k' ≠ k) :
    lookupRaw (insertKV d k v) k' = lookupRaw d k' := by
  unfold lookupRaw insertKV
  have hne : (k == k') = false := by simpa using (fun e => h e.symm)
  rw [List.find?_cons]
  simp only [hne]
  congr 1
  induction d with
  | nil => rfl
  | cons e es ih =>
    by_cases he : e.1 = k
    · have h1 : (e.1 != k) = false := by simp [he]
      have h2 : (e.1 == k') = false := by rw [he]; exact hne
      rw [List.filter_cons, List.find?_cons]
      simp only [h1, h2, Bool.false_eq_true, ↓reduceIte]
      exact ih
    · have h1 : (e.1 != k) = true := by simp [he]
      rw [List.filter_cons]
      simp only [h1, ↓reduceIte]
      rw [List.find?_cons, List.find?_cons, ih]

/-- text-typed settings (generated table: model key, range type, regressor, training set) are
stored verbatim -/
theorem c19_legacy_str_verbatim (isFloat : List Char → Bool) (k : String) (v : List Char)
    (hk : k ∈ ["model_key", "range_type", "rating regressor", "rating training set"]) :
    typed Nanite.Gen.Profile.legacyKind isFloat k.toList v = .ok (.s (String.ofList v)) := by
  simp only [List.mem_cons, List.mem_nil_iff, or_false] at hk
  rcases hk with rfl | rfl | rfl | rfl <;>
    simp [typed, Nanite.Gen.Profile.legacyKind, List.isPrefixOf, List.find?]

/-- `fit param <p> vary` entries are the boolean `text.lower() == "true"` -/
theorem c19_legacy_vary (kinds : List (String × LegacyKind)) (isFloat : List Char → Bool)
    (p v : List Char) :
    typed kinds isFloat ("fit param ".toList ++ p ++ " vary".toList) v
      = .ok (.b (lower v == "true".toList)) := by
  have h1 : "fit param ".toList.isPrefixOf ("fit param ".toList ++ p ++ " vary".toList) = true := by
    rw [List.append_assoc]; exact List.isPrefixOf_iff_prefix.mpr (List.prefix_append _ _)
  have h2 : "vary".toList.isSuffixOf ("fit param ".toList ++ p ++ " vary".toList) = true := by
    apply List.isSuffixOf_iff_suffix.mpr
    refine ⟨"fit param ".toList ++ p ++ [' '], ?_⟩
    simp
  simp only [typed, h1, h2, ↓reduceIte]

/-- **legacy = JSON for text-typed settings**: the line `key = text` (any padding; `text` may
contain `=`) loads to the JSON value `text` -/
theorem c19_legacy_str_roundtrip (isFloat : List Char → Bool) (k : String) (v p1 p2 p3 p4 : List Char)
    (hk : k ∈ ["model_key", "range_type", "rating regressor", "rating training set"])
    (h1 : AllWs p1) (h2 : AllWs p2) (h3 : AllWs p3) (h4 : AllWs p4) (hv : Stripped v) :
    (parseLine (p1 ++ k.toList ++ p2 ++ '=' :: (p3 ++ v ++ p4))).map
        (fun kv => (kv.1, typed Nanite.Gen.Profile.legacyKind isFloat kv.1 kv.2))
      = some (k.toList, .ok (.s (String.ofList v))) := by
  have hkk : k.toList ≠ [] ∧ Stripped k.toList ∧ '=' ∉ k.toList ∧ k.toList ≠ "segment".toList := by
    simp only [List.mem_cons, List.mem_nil_iff, or_false] at hk
    rcases hk with rfl | rfl | rfl | rfl <;> refine ⟨by decide, ⟨?_, ?_⟩, by decide, by decide⟩ <;>
      (intro c hc; simp at hc; subst hc; decide)
  rw [c19_legacy_line p1 p2 p3 p4 k.toList v h1 h2 h3 h4 hkk.1 hkk.2.1 hkk.2.2.1 hv]
  simp only [Option.map_some, c19_legacy_segment_other _ _ hkk.2.2.2,
    c19_legacy_str_verbatim isFloat k v hk]

/-! ### the whole file -/

/-- a well-formed entry of a legacy file: key text, value text, the four paddings -/
structure Entry where
  k : List Char
  v : List Char
  p1 : List Char
  p2 : List Char
  p3 : List Char
  p4 : List Char

def Entry.WF (e : Entry) : Prop :=
  AllWs e.p1 ∧ AllWs e.p2 ∧ AllWs e.p3 ∧ AllWs e.p4 ∧ e.k ≠ [] ∧ Stripped e.k ∧ '=' ∉ e.k ∧ Stripped e.v

def Entry.line (e : Entry) : List Char := e.p1 ++ e.k ++ e.p2 ++ '=' :: (e.p3 ++ e.v ++ e.p4)

/-- the value the file assigns to `key`: that of the LAST line with this key -/
def lastValue (es : List Entry) (key : List Char) : Option (List Char) :=
  (es.reverse.find? (fun e => e.k == key)).map (fun e => normSegment e.k e.v)

def step (acc : Option (List (List Char × List Char))) (line : List Char) :
    Option (List (List Char × List Char)) :=
  match acc, parseLine line with
  | some d, some (k, v) => some (insertKV d k v)
  | _, _ => none

theorem rawDict_eq_foldl (lines : List (List Char)) : rawDict lines = lines.foldl step (some []) := rfl

theorem foldl_step_spec (es : List Entry) (hwf : ∀ e ∈ es, e.WF) (d0 : List (List Char × List Char)) :
    ∃ d, (es.map Entry.line).foldl step (some d0) = some d ∧
      ∀ key, lookupRaw d key = (lastValue es key).orElse (fun _ => lookupRaw d0 key) := by
  induction es generalizing d0 with
  | nil => exact ⟨d0, rfl, fun key => by simp [lastValue]⟩
  | cons e es ih =>
    have he : e.WF := hwf e (by simp)
    obtain ⟨h1, h2, h3, h4, hk0, hk, hkeq, hv⟩ := he
    have hp : parseLine e.line = some (e.k, normSegment e.k e.v) :=
      c19_legacy_line e.p1 e.p2 e.p3 e.p4 e.k e.v h1 h2 h3 h4 hk0 hk hkeq hv
    simp only [List.map_cons, List.foldl_cons]
    have hs : step (some d0) e.line = some (insertKV d0 e.k (normSegment e.k e.v)) := by
      simp [step, hp]
    rw [hs]
    obtain ⟨d, hd, hl⟩ := ih (fun x hx => hwf x (by simp [hx])) (insertKV d0 e.k (normSegment e.k e.v))
    refine ⟨d, hd, fun key => ?_⟩
    rw [hl key]
    unfold lastValue
    simp only [List.reverse_cons, List.find?_append]
    cases hf : es.reverse.find? (fun x => x.k == key) with
    | some x => simp
    | none =>
      simp only [Option.map_none, Option.orElse_none, Option.none_or, List.find?_cons, List.find?_nil]
      by_cases hkk : e.k = key
      · subst hkk
        simp [c19_legacy_later_wins]
      · have : (e.k == key) = false := by simpa using hkk
        simp only [this, Option.map_none, Option.orElse_none]
        exact c19_legacy_other_keys d0 e.k key _ (fun h => hkk h.symm)

/-- **a whole legacy file**: every well-formed file loads (no line is rejected), and each key has the value of
its last line - whatever the values contain and however the lines are padded -/
theorem c19_legacy_file (es : List Entry) (hwf : ∀ e ∈ es, e.WF) :
    ∃ d, rawDict (es.map Entry.line) = some d ∧ ∀ key, lookupRaw d key = lastValue es key := by
  obtain ⟨d, hd, hl⟩ := foldl_step_spec es hwf []
  refine ⟨d, by rw [rawDict_eq_foldl]; exact hd, fun key => ?_⟩
  rw [hl key]
  cases lastValue es key <;> simp [lookupRaw]

/-- one line without `=` makes the whole load fail (Python: ValueError), wherever it stands -/
theorem c19_legacy_file_rejects (pre post : List (List Char)) (bad : List Char) (hbad : '=' ∉ strip bad) :
    rawDict (pre ++ bad :: post) = none := by
  rw [rawDict_eq_foldl, List.foldl_append, List.foldl_cons]
  have hb : ∀ acc, step acc bad = none := by
    intro acc
    cases acc with
    | none => simp [step]
    | some d => simp [step, parseLine, c19_legacy_no_equals _ hbad]
  rw [hb]
  have hn : ∀ ls : List (List Char), ls.foldl step none = none := by
    intro ls
    induction ls with
    | nil => rfl
    | cons l ls ih => simp [List.foldl_cons, step, ih]
  exact hn post

/-- non-vacuity / the case that motivated the statement: a training-set path containing `=` -/
example : parseLine "rating training set = /data/k=0.05/ts_user".toList
    = some ("rating training set".toList, "/data/k=0.05/ts_user".toList) := by decide

end Nanite.C19Legacy
