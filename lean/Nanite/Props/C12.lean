import Nanite.Lemmas.Hash
import Nanite.Gen.FitKeys
/-!
# C12 – The fit hash identifies data plus effective settings, deterministically

Property theorems about the model `Nanite.Model.Hash` of `obj2bytes` / `_hash` (the bytes fed to
MD5).  Collision resistance of MD5 and injectivity of `str(float(x))` are assumed (DESIGN §4);
the theorems are about the pre-image bytes.
-/
namespace Nanite.C12
open Nanite.Hash

/-! ## Sensitivity: the encoding of compound values is injective in the item encodings -/

/-- lists / tuples: equal encodings ⇒ item-wise equal encodings (in particular equal length) -/
theorem c12_list_inj (l l' : List PV) (h : enc (.list l) = enc (.list l')) :
    l.map enc = l'.map enc := by
  simp only [enc] at h
  have := frames_inj _ _ h
  rwa [encList_eq_map, encList_eq_map] at this

/-- changing a single entry of a list (to something with a different encoding) changes the
encoding of the list – the old concatenation-based encoding did not have this property. -/
theorem c12_list_single_entry (l : List PV) (i : Nat) (v : PV) (hi : i < l.length)
    (hv : enc v ≠ enc l[i]) : enc (.list (l.set i v)) ≠ enc (.list l) := by
  intro h
  have := c12_list_inj _ _ h
  have h2 := congrArg (fun m => m[i]?) this
  simp only [List.getElem?_map, List.getElem?_set, hi, ↓reduceIte, Option.map_some,
    List.getElem?_eq_getElem hi] at h2
  exact hv (Option.some.inj h2)

/-- lmfit parameters: equal encodings ⇒ value, max, min, vary, expr and name all agree -/
theorem c12_param_attrs (v mx mn vy nm v' mx' mn' vy' nm' : Bytes) (ex ex' : Option Bytes)
    (h : enc (.param v mx mn vy ex nm) = enc (.param v' mx' mn' vy' ex' nm')) :
    v = v' ∧ mx = mx' ∧ mn = mn' ∧ vy = vy' ∧ nm = nm' ∧
      exprBytes ex = exprBytes ex' := by
  simp only [enc] at h
  have := frames_inj _ _ h
  simp only [List.cons.injEq, and_true] at this
  obtain ⟨h1, h2, h3, h4, h5, h6⟩ := this
  exact ⟨h1, h2, h3, h4, h6, h5⟩

/-- dictionaries (and lmfit.Parameters): the encoding does not depend on insertion order -/
theorem c12_dict_order (kv kv' : List (Bytes × PV)) (hp : kv.Perm kv')
    (hnd : (kv.map Prod.fst).Nodup) : enc (.dict kv) = enc (.dict kv') := by
  simp only [enc]
  have hp' : (encKV kv).Perm (encKV kv') := by
    rw [encKV_eq_map, encKV_eq_map]; exact hp.map _
  have hnd' : ((encKV kv).map Prod.fst).Nodup := by
    rw [encKV_eq_map, List.map_map]
    simpa [Function.comp_def] using hnd
  rw [sortKV_perm_eq _ _ hp' hnd']

/-- dictionaries: equal encodings ⇒ the key-sorted (key, encoded value) lists agree, i.e.
same keys and every value has the same encoding -/
theorem c12_dict_inj (kv kv' : List (Bytes × PV)) (h : enc (.dict kv) = enc (.dict kv')) :
    sortKV (encKV kv) = sortKV (encKV kv') := by
  simp only [enc] at h
  have h1 := frames_inj _ _ h
  have key : ∀ a b : List (Bytes × Bytes),
      a.map (fun p => frames [p.1, p.2]) = b.map (fun p => frames [p.1, p.2]) → a = b := by
    intro a
    induction a with
    | nil => intro b hb; cases b <;> simp_all
    | cons p ps ih =>
      intro b hb
      cases b with
      | nil => simp at hb
      | cons q qs =>
        simp only [List.map_cons, List.cons.injEq] at hb
        have := frames_inj _ _ hb.1
        simp only [List.cons.injEq, and_true] at this
        rw [ih qs hb.2]
        obtain ⟨p1, p2⟩ := p; obtain ⟨q1, q2⟩ := q
        simp_all
  exact key _ _ h1

/-! ## The pre-image: which settings enter, and each one separately -/

/-- replace the value stored under key `k` -/
def setKey (k : String) (v : PV) (items : List (String × PV)) : List (String × PV) :=
  items.map (fun p => if p.1 = k then (p.1, v) else p)

/-- what the loop over `FP_DEFAULT` appends for key `k` holding `v` (nothing, the upper range
bound only, or the value) -/
def effItem (edelta : Bool) (k : String) (v : PV) : List PV :=
  settingItems edelta [(k, v)]

theorem settingItems_cons (e : Bool) (k : String) (v : PV) (rest : List (String × PV)) :
    settingItems e ((k, v) :: rest) = effItem e k v ++ settingItems e rest := by
  simp only [effItem, settingItems]
  split
  · simp
  · split <;> simp

/-- equal pre-images ⇒ equal encodings of preprocessing, options, both data arrays and of
every item contributed by the settings -/
theorem c12_pre_inj (pre opts pre' opts' : PV) (x y x' y' : Bytes) (s s' : Settings)
    (h : hashPre pre opts x y s = hashPre pre' opts' x' y' s') :
    enc pre = enc pre' ∧ enc opts = enc opts' ∧ x = x' ∧ y = y' ∧
      (settingItems s.edelta s.items).map enc = (settingItems s'.edelta s'.items).map enc := by
  unfold hashPre hashList at h
  have := c12_list_inj _ _ h
  simp only [List.cons_append, List.nil_append, List.map_cons, List.cons.injEq, enc] at this
  exact this

/-- a single data sample changed ⇒ different pre-image -/
theorem c12_data_single_sample (pre opts : PV) (x y y' : Bytes) (s : Settings) (hy : y ≠ y') :
    hashPre pre opts x y s ≠ hashPre pre opts x y' s := by
  intro h
  exact hy (c12_pre_inj _ _ _ _ _ _ _ _ _ _ h).2.2.2.1

/-- **single setting**: if only the value stored under one key differs between two settings
and the pre-images agree, then what that key contributes has the same encoding – i.e. a change
of any setting that enters the hash changes the pre-image. -/
theorem c12_single_setting (e : Bool) (k : String) (v v' : PV) :
    ∀ items : List (String × PV), k ∈ items.map Prod.fst →
      (settingItems e (setKey k v items)).map enc = (settingItems e (setKey k v' items)).map enc →
      (effItem e k v).map enc = (effItem e k v').map enc := by
  intro items
  induction items with
  | nil => intro hk; simp at hk
  | cons p rest ih =>
    obtain ⟨k0, v0⟩ := p
    intro hk h
    simp only [setKey, List.map_cons] at h
    by_cases hk0 : k0 = k
    · subst hk0
      simp only [↓reduceIte] at h
      rw [settingItems_cons, settingItems_cons, List.map_append, List.map_append] at h
      have hlen : ((effItem e k0 v).map enc).length = ((effItem e k0 v').map enc).length := by
        simp only [effItem, settingItems, List.length_map]
        split
        · simp
        · split <;> simp
      exact (List.append_inj h hlen).1
    · simp only [hk0, ↓reduceIte] at h
      rw [settingItems_cons, settingItems_cons, List.map_append, List.map_append] at h
      have h2 := List.append_cancel_left h
      apply ih _ h2
      simp only [List.map_cons, List.mem_cons] at hk
      cases hk with
      | inl h => exact absurd h.symm hk0
      | inr h => exact h

/-! ## The documented don't-cares -/

/-- sample count is ignored while the plateau search is off -/
theorem c12_ignores_nsamples (v : PV) (items : List (String × PV)) :
    settingItems false (setKey "optimal_fit_num_samples" v items) = settingItems false items := by
  induction items with
  | nil => rfl
  | cons p rest ih =>
    obtain ⟨k0, v0⟩ := p
    simp only [setKey, List.map_cons] at ih ⊢
    by_cases hk : k0 = "optimal_fit_num_samples"
    · subst hk
      simp only [↓reduceIte, settingItems]
      simpa using ih
    · simp only [hk, ↓reduceIte]
      rw [settingItems_cons, settingItems_cons, ih]

/-- the lower range bound is ignored while the plateau search is on -/
theorem c12_ignores_range_lo (lo lo' hi : PV) (items : List (String × PV)) :
    settingItems true (setKey "range_x" (.list [lo, hi]) items) =
      settingItems true (setKey "range_x" (.list [lo', hi]) items) := by
  induction items with
  | nil => rfl
  | cons p rest ih =>
    obtain ⟨k0, v0⟩ := p
    simp only [setKey, List.map_cons] at ih ⊢
    by_cases hk : k0 = "range_x"
    · subst hk
      simp only [↓reduceIte, settingItems, Bool.and_true, decide_true]
      simpa using ih
    · simp only [hk, ↓reduceIte]
      rw [settingItems_cons, settingItems_cons, ih]

/-- … and both bounds matter while it is off, as does the sample count while it is on -/
theorem c12_range_matters_when_off (lo hi : PV) :
    effItem false "range_x" (.list [lo, hi]) = [.list [lo, hi]] := by
  simp [effItem, settingItems]

theorem c12_nsamples_matters_when_on (v : PV) :
    effItem true "optimal_fit_num_samples" v = [v] := by
  simp [effItem, settingItems]

/-- the special-cased keys exist in the *generated* FP_DEFAULT key list (otherwise the
don't-care theorems would talk about keys the code does not have), and every key is hashed
unless it is one of the two special cases -/
theorem c12_special_keys_exist :
    "range_x" ∈ Nanite.Gen.FitKeys.fpDefaultKeys ∧
    "optimal_fit_num_samples" ∈ Nanite.Gen.FitKeys.fpDefaultKeys ∧
    "optimal_fit_edelta" ∈ Nanite.Gen.FitKeys.fpDefaultKeys ∧
    Nanite.Gen.FitKeys.fpDefaultKeys.Nodup := by decide

theorem c12_other_keys_enter (e : Bool) (k : String) (v : PV)
    (h1 : k ≠ "range_x") (h2 : k ≠ "optimal_fit_num_samples") : effItem e k v = [v] := by
  simp [effItem, settingItems, h1, h2]

/-! ## Non-vacuity / concrete instances -/
def b (s : String) : Bytes := s.toList.map Char.toNat

example : enc (.list [.tok (b "1.0"), .tok (b "12.0")]) ≠ enc (.list [.tok (b "1.01"), .tok (b "2.0")]) := by
  decide +kernel
example : enc (.list [.tok (b "1.0"), .tok (b "12.0")]) = b "3:1.04:12.0" := by decide +kernel
example : enc (.dict [(b "b", .tok (b "1.0")), (b "a", .none)]) =
    enc (.dict [(b "a", .none), (b "b", .tok (b "1.0"))]) := by decide +kernel
example : (["model_key", "range_x"].map (fun k => (k, PV.none))).map Prod.fst = ["model_key", "range_x"] := by
  decide

end Nanite.C12
