/-
Model of `nanite.fit.obj2bytes` and `IndentationFitter._hash` (src/nanite/fit.py): the exact
pre-image bytes that are fed to MD5.  Core Lean only.

Bytes are `List Nat` (values < 256 are sent by the harness; nothing in the model depends on the
bound).  Atoms are encoded by the harness exactly as `obj2bytes` prescribes and tagged with
their kind:
  * `str b`  – a Python `str`, `b` = its UTF-8 bytes
  * `tok b`  – bool / int / float / numpy scalar, `b` = `str(float(x))` as ASCII
  * `none`   – `None` ↦ b"none"
  * `arr b`  – `ndarray.tobytes()`
Compound values are encoded by the model:
  * `list`  (Python list or tuple) – every item prefixed with `<decimal length>:`
  * `dict`  (dict or lmfit.Parameters) – `sorted(items())`, each item the 2-list `[key, value]`
  * `param` (lmfit Parameter) – the 6-list `[value, max, min, vary, expr, name]`
-/
namespace Nanite.Hash

abbrev Bytes := List Nat

inductive PV where
  | str (b : Bytes)
  | tok (b : Bytes)
  | none
  | arr (b : Bytes)
  | list (l : List PV)
  | dict (kv : List (Bytes × PV))
  | param (value max min vary : Bytes) (expr : Option Bytes) (name : Bytes)

/-- decimal digits of a natural number as ASCII codes (`str(n).encode()`) -/
def digits (n : Nat) : Bytes :=
  if h : n < 10 then [48 + n] else digits (n / 10) ++ [48 + n % 10]
termination_by n
decreasing_by omega

/-- one framed item: `<len>:<bytes>` -/
def frame (b : Bytes) : Bytes := digits b.length ++ 58 :: b

/-- `b"".join(str(len(it)).encode() + b":" + it for it in items)` -/
def frames : List Bytes → Bytes
  | [] => []
  | b :: bs => frame b ++ frames bs

/-- lexicographic `<` on byte strings (= Python's `str` order on the UTF-8 encodings) -/
def lexLt : Bytes → Bytes → Bool
  | [], [] => false
  | [], _ :: _ => true
  | _ :: _, [] => false
  | a :: as, b :: bs => if a < b then true else if b < a then false else lexLt as bs

/-- insertion into a key-sorted association list -/
def insertKV {β : Type} (k : Bytes) (v : β) : List (Bytes × β) → List (Bytes × β)
  | [] => [(k, v)]
  | (k', v') :: rest =>
      if lexLt k' k then (k', v') :: insertKV k v rest else (k, v) :: (k', v') :: rest

/-- `sorted(d.items())` for distinct string keys -/
def sortKV {β : Type} : List (Bytes × β) → List (Bytes × β)
  | [] => []
  | (k, v) :: rest => insertKV k v (sortKV rest)

def noneBytes : Bytes := [110, 111, 110, 101]   -- b"none"

/-- `obj.expr` is `None` or a string -/
def exprBytes : Option Bytes → Bytes
  | some e => e
  | Option.none => noneBytes

mutual
  def enc : PV → Bytes
    | .str b => b
    | .tok b => b
    | .none => noneBytes
    | .arr b => b
    | .list l => frames (encList l)
    | .dict kv => frames ((sortKV (encKV kv)).map (fun p => frames [p.1, p.2]))
    | .param v mx mn vy ex nm =>
        frames [v, mx, mn, vy, exprBytes ex, nm]
  def encList : List PV → List Bytes
    | [] => []
    | x :: xs => enc x :: encList xs
  def encKV : List (Bytes × PV) → List (Bytes × Bytes)
    | [] => []
    | (k, v) :: rest => (k, enc v) :: encKV rest
end

/-- the fit settings in the order of `FP_DEFAULT` with their values -/
structure Settings where
  items : List (String × PV)     -- every key of FP_DEFAULT, in FP_DEFAULT order
  edelta : Bool                  -- truthiness of fp["optimal_fit_edelta"]

/-- the entries of `hashlist` contributed by the loop over `FP_DEFAULT` -/
def settingItems (edelta : Bool) : List (String × PV) → List PV
  | [] => []
  | (k, v) :: rest =>
      if k = "range_x" && edelta then
        (match v with
         | .list [_, hi] => hi
         | _ => v) :: settingItems edelta rest
      else if k = "optimal_fit_num_samples" && !edelta then settingItems edelta rest
      else v :: settingItems edelta rest

/-- `hashlist` of `_hash`: preprocessing, options, x data, y data, then the settings -/
def hashList (pre opts : PV) (x y : Bytes) (s : Settings) : List PV :=
  [pre, opts, .arr x, .arr y] ++ settingItems s.edelta s.items

/-- the bytes handed to `hashlib.md5` -/
def hashPre (pre opts : PV) (x y : Bytes) (s : Settings) : Bytes :=
  enc (.list (hashList pre opts x y s))

end Nanite.Hash
