import Nanite.Gen.ModelAttrs
import Nanite.Model.Basic
/-
Model of `NaniteFitModel._module_check`, `_module_autocomplete`, `register_model`,
`deregister_model`, the `sys.path` / `dont_write_bytecode` handling of `load_model_from_file`
(src/nanite/model/core.py, logic.py) and of the ancillary seeding in
`nanite.fit.guess_initial_parameters`.  Core Lean only.
-/
namespace Nanite.Registry
open Nanite.Gen.ModelAttrs

inductive ModelErr where
  | incomplete        -- ModelIncompleteError
  | implementation    -- ModelImplementationError
  | importErr         -- ModelImportError
  | keyErr            -- KeyError (deregistering an unknown model)
  deriving DecidableEq, Repr

/-- the facts about a model module that `_module_check` looks at -/
structure Desc where
  present : List String      -- attribute names for which `hasattr(module, name)` holds
  modelKey : String
  keys : List String         -- parameter_keys
  names : List String        -- parameter_names
  units : List String        -- parameter_units
  defaults : List String     -- list(get_parameter_defaults().keys())
  args : List String         -- names in the signature of model_func (abscissa first)
  ancKeys : List String      -- parameter_anc_keys (if present)
  ancUnits : List String     -- parameter_anc_units (if present)
  deriving DecidableEq, Repr

structure Warnings where
  units : Bool := false
  ancUnits : Bool := false
  argOrder : Nat := 0
  deriving DecidableEq, Repr

def hasSpace (u : String) : Bool := u.trimAscii.toString != u

/-- number of positions at which the argument order warning is emitted -/
def argWarnings : Nat → List String → List String → Nat
  | _, [], _ => 0
  | ii, k :: ks, args =>
      (if args[ii + 1]? = some k then 0 else 1) + argWarnings (ii + 1) ks args

def moduleCheck (d : Desc) : Except ModelErr Warnings :=
  if required.any (fun a => !d.present.contains a) then .error .incomplete else
  if d.present.contains "compute_ancillaries" && requiredAnc.any (fun a => !d.present.contains a)
  then .error .incomplete else
  if d.keys.length != d.names.length then .error .implementation else
  if d.keys.length != d.units.length then .error .implementation else
  if d.names.eraseDups.length != d.names.length then .error .implementation else
  if d.defaults.length != d.keys.length then .error .implementation else
  if d.keys != d.defaults then .error .implementation else
  .ok { units := d.units.any hasSpace,
        ancUnits := d.present.contains "parameter_anc_units" && d.ancUnits.any hasSpace,
        argOrder := argWarnings 0 d.keys d.args }

/-- what registration makes available for a model -/
structure Entry where
  desc : Desc
  defaultResidual : Bool     -- residual wrapper attached by `_module_autocomplete`
  defaultModel : Bool        -- modeling wrapper attached by `_module_autocomplete`
  ancKeys : List String      -- get_anc_parm_keys(): common ++ own
  deriving DecidableEq, Repr

def mkEntry (d : Desc) : Entry :=
  { desc := d,
    defaultResidual := !d.present.contains "residual",
    defaultModel := !d.present.contains "model",
    ancKeys := ancillaryCommon ++
      (if d.present.contains "compute_ancillaries" then d.ancKeys else []) }

abbrev Reg := List (String × Entry)

def lookup (r : Reg) (k : String) : Option Entry := (r.find? (fun p => p.1 == k)).map Prod.snd

/-- `models_available[k] = e` (the position of a replaced key is not modelled; registries
are compared by their sorted keys) -/
def insert (r : Reg) (k : String) (e : Entry) : Reg :=
  (k, e) :: r.filter (fun p => p.1 != k)

/-- interpreter state touched by `load_model_from_file` -/
structure Interp where
  path : List String
  dontWriteBytecode : Bool
  deriving DecidableEq, Repr

structure State where
  reg : Reg
  interp : Interp

inductive Op where
  | register (d : Desc)
  | deregister (key : String)
  /-- `load_model_from_file(path, register)`; `module = none` models a file that cannot be
  imported, `dir` is the directory of the file -/
  | load (dir : String) (module : Option Desc) (register : Bool)

inductive Out where
  | ok (w : Option Warnings)
  | err (e : ModelErr)
  deriving DecidableEq, Repr

/-- `sys.path` as seen by the import statement inside `load_model_from_file` -/
def pathDuringImport (p : List String) (dir : String) : List String :=
  p.insertIdx (p.length - 1) dir

def step (s : State) : Op → State × Out
  | .register d =>
      match moduleCheck d with
      | .ok w => ({ s with reg := insert s.reg d.modelKey (mkEntry d) }, .ok (some w))
      | .error e => (s, .err e)
  | .deregister k =>
      if s.reg.any (fun p => p.1 == k) then
        ({ s with reg := s.reg.filter (fun p => p.1 != k) }, .ok none)
      else (s, .err .keyErr)
  | .load _dir module reg =>
      -- path insertion, import, and the `finally` block restoring path and flag
      match module with
      | none => (s, .err .importErr)
      | some d =>
          match moduleCheck d with
          | .error e => (s, .err e)
          | .ok w =>
              if reg then ({ s with reg := insert s.reg d.modelKey (mkEntry d) }, .ok (some w))
              else (s, .ok (some w))

def run (s : State) (ops : List Op) : State := ops.foldl (fun st op => (step st op).1) s

/-! ### ancillary seeding (`guess_initial_parameters`) -/

/-- parameter values; `none` is NaN -/
abbrev Vals := List (String × Option Int)

def setVal (ps : Vals) (k : String) (v : Option Int) : Vals :=
  ps.map (fun p => if p.1 == k then (k, v) else p)

/-- for every ancillary whose key is a fit parameter and whose value is not NaN: seed it -/
def seed (params anc : Vals) : Vals :=
  anc.foldl (fun ps a => match a.2 with
    | some v => if ps.any (fun p => p.1 == a.1) then setVal ps a.1 (some v) else ps
    | none => ps) params

end Nanite.Registry
