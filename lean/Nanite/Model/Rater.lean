import Mathlib.Algebra.Order.Field.Basic
import Mathlib.Algebra.Order.BigOperators.Group.List
/-
Model of the rating decision of `IndentationRater.rate` (src/nanite/rate/rater.py) and of an
averaging tree ensemble, over a linearly ordered field; NaN is `none`.
-/
namespace Nanite.Rater
variable {K : Type} [Field K] [LinearOrder K] [IsStrictOrderedRing K]

/-- `_pre_rate`: a binary feature equal to 0 marks a certainly bad curve (NaN is not 0) -/
def preRateFails (bins : List (Option K)) : Bool := bins.any (fun b => b == some 0)

/-- `rate` for one curve: 0 if an exclusion criterion fails, −1 if a continuous feature is
undefined, the regressor's prediction otherwise -/
def rating (reg : List K → K) (bins cons : List (Option K)) : K :=
  if preRateFails bins then 0
  else if cons.any Option.isNone then -1
  else reg (cons.filterMap id)

/-- prediction of an averaging ensemble: a weighted mean of leaf values -/
def wmean (ws vs : List K) : K := (List.zipWith (· * ·) ws vs).sum

end Nanite.Rater
