import Nanite.Model.ProfileTypes
/-
Model of the CLI profile store `nanite.cli.profile.Profile` (src/nanite/cli/profile.py):
`__init__`, `__getitem__` (default + write-through), `__setitem__` (key rule for fit
parameters), `get_fit_params`, and of the decision logic of `setup_profile` for the answers that
are not plain pass-through (range type, interval bounds).  The JSON file is an association
list; `json.dumps(sort_keys=True)` makes its order irrelevant.  Core Lean only.
-/
namespace Nanite.Profile

abbrev File := List (String × JV)

def fget (f : File) (k : String) : Option JV := (f.find? (fun p => p.1 == k)).map Prod.snd

/-- `data[k] = v; save(data)` -/
def fset (f : File) (k : String) (v : JV) : File := (k, v) :: f.filter (fun p => p.1 != k)

inductive Op where
  | new                                  -- Profile(path): touch + read every default
  | get (k : String)                     -- pf[k]
  | set (k : String) (v : JV)            -- pf[k] = v
  /-- pf.get_fit_params() for a model whose defaults are `md` (name, value, vary) -/
  | fitParams (md : List (String × JV × Bool))

inductive Out where
  | unit
  | val (v : JV)
  | keyErr
  | valueErr
  | params (ps : List (String × JV × Bool))
  deriving Repr, BEq

def validKey (k : String) : Bool :=
  !("fit param".toList.isPrefixOf k.toList) || "value".toList.isSuffixOf k.toList ||
    "vary".toList.isSuffixOf k.toList

def getItem (D : File) (f : File) (k : String) : File × Out :=
  match fget D k with
  | none => (f, .keyErr)
  | some dflt =>
      let v := (fget f k).getD dflt
      (fset f k v, .val v)

def vkey (p : String) : String := "fit param " ++ p ++ " value"
def fkey (p : String) : String := "fit param " ++ p ++ " vary"

def fitParam (f : File) (e : String × JV × Bool) : String × JV × Bool :=
  (e.1, (fget f (vkey e.1)).getD e.2.1,
    match fget f (fkey e.1) with
    | some (.b x) => x
    | _ => e.2.2)

def writeParam (f : File) (e : String × JV × Bool) : File :=
  fset (fset f (vkey e.1) e.2.1) (fkey e.1) (.b e.2.2)

def step (D : File) (f : File) : Op → File × Out
  | .new => (D.foldl (fun f p => (getItem D f p.1).1) f, .unit)
  | .get k => getItem D f k
  | .set k v => if validKey k then (fset f k v, .unit) else (f, .valueErr)
  | .fitParams md =>
      let ps := md.map (fitParam f)
      (ps.foldl writeParam f, .params ps)

def run (D : File) (f : File) (ops : List Op) : File := ops.foldl (fun f op => (step D f op).1) f

/-- the value a read of `k` reports: what is stored, else the default -/
def eff (D f : File) (k : String) : Option JV :=
  match fget f k with
  | some v => some v
  | none => fget D k

/-! ### interactive setup: the answers that are transformed before they are stored -/

/-- range type prompt: an accepted answer is `absolute` or `relative`; the fitter knows the
latter as `relative cp` -/
def storeRangeType (answer : String) : String :=
  if answer = "relative" then "relative cp" else answer

/-- interval prompt: each bound is replaced iff its own answer is non-empty -/
def storeInterval (cur : JV × JV) (left right : Option JV) : JV × JV :=
  (left.getD cur.1, right.getD cur.2)

/-- the fitter's sanity check on `range_type` -/
def fitterAcceptsRangeType (rt : String) : Bool := rt == "absolute" || rt == "relative cp"

end Nanite.Profile
