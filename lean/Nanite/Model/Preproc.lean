import Nanite.Model.Poc
/-
Model of the preprocessing steps of `nanite.preproc` and of `nanite.smooth.smooth_axis_monotone`
as pure functions on columns (lists over a linearly ordered field).  External numerical routines are
parameters or closed forms: the contact-point index comes from `Nanite.Poc`, the baseline line of
`correct_force_slope` is either a parameter `(m, c)` or the closed-form least-squares line, the
standard deviation in `find_turning_point` is expressed through the variance (`v < √var ⇔ v < 0 ∨
v² < var`).
-/
namespace Nanite.Preproc
open Nanite.Poc
variable {K : Type} [Field K] [LinearOrder K] [IsStrictOrderedRing K]

def mean (l : List K) : K := l.sum / (l.length : K)

/-! ## compute_tip_position, correct_force_offset, correct_tip_offset -/

/-- `tip = height + force / k` -/
def computeTip (k : K) (h f : List K) : List K := List.zipWith (fun hi fi => hi + fi / k) h f

/-- the constant subtracted by `correct_force_offset`; `idp = compute_poc(force, "deviation_from_baseline")` -/
def forceOffsetConst (idp : Nat) (f : List K) : K :=
  if idp ≠ 0 then mean (f.take idp) else f.headD 0

def forceOffset (idp : Nat) (f : List K) : List K := f.map (· - forceOffsetConst idp f)

/-- the whole step: the index is the threshold estimate on the clipped force with the centre fallback -/
def correctForceOffset (f : List K) : List K := forceOffset (computePoc devBaseline f) f

/-- `correct_tip_offset`: subtract the tip position at the estimated contact index -/
def tipOffset (cpid : Nat) (tip : List K) : List K := tip.map (· - tip.getD cpid 0)

/-! ## find_turning_point, correct_split_approach_retract -/

/-- `find_turning_point(tip_position, force, contact_point_index)` -/
def turningPoint (tip f : List K) (idp : Nat) : Option Nat :=
  let x0 := tip.map (· - tip.getD idp 0)
  let y0 := f.map (· - mean (f.take idp))
  match lmin x0, lmax y0 with
  | some xmin, some ymax =>
    let x1 := if xmin ≠ 0 then x0.map (· / xmin) else x0
    let x2 := x1.map fun v => if v < 0 then 0 else v
    let y1 := y0.map (· / ymax)
    let bl := y1.take idp
    let var := mean (bl.map fun v => (v - mean bl) ^ 2)
    let y2 := y1.map fun v => if v < 0 ∨ v * v < var then 0 else v
    argmax (List.zipWith (fun x y => x ^ 2 + y ^ 2) x2 y2)
  | _, _ => none

/-- the segment column written by `correct_split_approach_retract` -/
def segmentOf (idturn n : Nat) : List Nat := (List.range n).map fun i => if i < idturn then 0 else 1

/-- `correct_split_approach_retract`; `none` = CannotSplitWarning, segment unchanged.  The contact
index is the raw threshold estimate on the *unclipped* force. -/
def splitApproachRetract (tip f : List K) : Option (List Nat) :=
  match devBaseline f with
  | none => none
  | some idp => if idp = 0 then none else (turningPoint tip f idp).map (segmentOf · f.length)

/-! ## correct_force_slope -/

def line (m c x : K) : K := m * x + c

/-- `force_edit[:stop] -= line(x[:stop]) - line(x[ref])` -/
def subtractLine (m c : K) (xs f : List K) (stop ref : Nat) : List K :=
  (List.range f.length).map fun i =>
    if i < stop then f.getD i 0 - (line m c (xs.getD i 0) - line m c (xs.getD ref 0)) else f.getD i 0

/-- contact index used by the slope correction: `max(2, argmin |tip|)` -/
def slopeIdp (tip : List K) : Nat := max 2 ((argmin (tip.map (|·|))).getD 0)

inductive Region | baseline | approach | all
deriving DecidableEq, Repr

/-- `correct_force_slope` given the fitted line `(m, c)`; `xs` is the abscissa chosen by the strategy
(tip position for "shift", time for "drift") -/
def correctSlope (region : Region) (m c : K) (xs tip f : List K) : List K :=
  let idp := slopeIdp tip
  match region with
  | .baseline => subtractLine m c xs f idp (min idp f.length - 1)
  | .approach =>
      let it := max 2 ((turningPoint tip f idp).getD 0)
      subtractLine m c xs f it (min it f.length - 1)
  | .all => subtractLine m c xs f f.length idp

/-- closed-form least-squares line through the points `ps = [(x, y), …]` -/
def sxx (ps : List (K × K)) : K :=
  (ps.map fun p => (p.1 - mean (ps.map Prod.fst)) ^ 2).sum
def sxy (ps : List (K × K)) : K :=
  (ps.map fun p => (p.1 - mean (ps.map Prod.fst)) * (p.2 - mean (ps.map Prod.snd))).sum
def olsSlope (ps : List (K × K)) : K := sxy ps / sxx ps
def olsIntercept (ps : List (K × K)) : K := mean (ps.map Prod.snd) - olsSlope ps * mean (ps.map Prod.fst)

/-- the step with the least-squares line of the baseline `[:idp]` -/
def correctSlopeOls (region : Region) (xs tip f : List K) : List K :=
  let bl := (List.zip xs f).take (slopeIdp tip)
  correctSlope region (olsSlope bl) (olsIntercept bl) xs tip f

/-! ## smooth_axis_monotone -/

def insertSorted (x : K) : List K → List K
  | [] => [x]
  | y :: r => if x ≤ y then x :: y :: r else y :: insertSorted x r

def isort : List K → List K
  | [] => []
  | x :: r => insertSorted x (isort r)

/-- `scipy.ndimage.median_filter(data, size=(w,), mode="nearest")`, odd `w` -/
def medianFilter (w : Nat) (d : List K) : List K :=
  (List.range d.length).map fun (i : Nat) =>
    let win := (List.range w).map fun (k : Nat) =>
      d.getD (min (d.length - 1) (i + k - w / 2)) 0
    (isort win).getD (w / 2) 0

def adjLeB : List K → Bool
  | a :: b :: r => decide (a ≤ b) && adjLeB (b :: r)
  | _ => true

def adjGeB : List K → Bool
  | a :: b :: r => decide (b ≤ a) && adjGeB (b :: r)
  | _ => true

/-- loop 1: double the window until the filtered data are weakly monotone; `none` = `max_iter` reached -/
def smoothLoop1 : Nat → Nat → List K → Option (List K)
  | 0, _, _ => none
  | fuel + 1, w, d =>
    let s := medianFilter w d
    if adjLeB s || adjGeB s then some s else smoothLoop1 fuel (2 * w + 1) d

/-- number of leading elements equal to `v` -/
def countEq (v : K) : List K → Nat
  | x :: r => if x = v then countEq v r + 1 else 0
  | [] => 0

/-- the values written into a plateau `v, v, …, v` (L copies after the first) followed by `nxt`:
the first gap uses `nxt - v`, the later ones see the already modified first copy -/
def spread (v nxt : K) (L : Nat) : List K :=
  let d : K := (L : K) + 5
  let e0 := v + (nxt - v) / d * 1
  let g1 := nxt - e0
  e0 :: (List.range (L - 1)).map fun (j : Nat) => v + g1 / d * ((j : K) + 2)

/-- resolve the plateau starting at `v` whose `L` further copies lead the list `l` -/
def fill (dx v : K) (L : Nat) (l : List K) : List K :=
  match l.drop L with
  | nxt :: rest => spread v nxt L ++ nxt :: rest
  | [] => List.replicate (L - 1) v ++ [v + (L : K) * dx]

/-- one pass of the tie-breaking loop: only the first plateau is changed -/
def tieAux (dx : K) : List K → List K
  | a :: b :: r => if a = b then a :: fill dx a (countEq a (b :: r)) (b :: r) else a :: tieAux dx (b :: r)
  | l => l

def tieStep (s : List K) : List K := tieAux ((s.getD 1 0 - s.getD 0 0) / 10) s

/-- loop 2: until all values are distinct; `none` = `max_iter` reached -/
def smoothLoop2 : Nat → List K → Option (List K)
  | 0, _ => none
  | fuel + 1, s => if s.Nodup then some s else smoothLoop2 fuel (tieStep s)

/-- `smooth_axis_monotone(data, window, max_iter)` -/
def smoothMonotone (w maxIter : Nat) (d : List K) : Option (List K) :=
  match smoothLoop1 maxIter w d with
  | none => none
  | some s => smoothLoop2 maxIter s

end Nanite.Preproc
