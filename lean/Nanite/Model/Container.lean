import Nanite.Model.Basic
/-
Model of the rating container (`nanite.rate.io.save_hdf5 / load_hdf5 / hdf5_rated`,
src/nanite/rate/io.py) as the *ordered sequence of primitive writes* a save performs, so that
a failure can be injected after any number of writes.  Core Lean only.

All payloads are opaque tokens (`Tok`): attribute values after the conversions of the code
(`dumps`, `",".join`, `json.dumps`, `str`), dataset contents as digests of their bytes.  The
comparison "same fit" (`np.allclose(..., atol=0, equal_nan=True)`) is modelled by equality of
the fit tokens (the streams used for the correspondence only contain identical or grossly
different fits).
-/
namespace Nanite.Container

abbrev Tok := String

structure Group where
  attrs : List (String × Tok)
  dsets : List (String × Tok)
  deriving DecidableEq, Repr

structure Data where
  tok : Tok
  path : Option Tok          -- the "path" attribute
  deriving DecidableEq, Repr

/-- an HDF5 rating container; the key lists only serve iteration (h5py iterates by name) -/
structure Cont where
  dataKeys : List String
  anaKeys : List String
  data : String → Option Data
  ana : String → Option Group

def empty : Cont := { dataKeys := [], anaKeys := [], data := fun _ => none, ana := fun _ => none }

def alookup (l : List (String × Tok)) (k : String) : Option Tok :=
  (l.find? (fun p => p.1 == k)).map Prod.snd

def aset (l : List (String × Tok)) (k : String) (v : Tok) : List (String × Tok) :=
  (k, v) :: l.filter (fun p => p.1 != k)

def dsetNames : List String := ["fit", "fit range", "fit residuals", "force", "segment", "tip position"]
def attrNames : List String := ["data enum", "data hash", "user comment", "user name", "user rate"]

/-- `_analysis_complete` -/
def complete (g : Group) : Bool :=
  dsetNames.all (fun n => (alookup g.dsets n).isSome) && attrNames.all (fun n => (alookup g.attrs n).isSome)

/-- what is saved for one curve -/
structure Curve where
  dhash : String
  idd : String
  enum : Tok
  path : Tok
  raw : Tok
  fitAttrs : List (String × Tok)    -- ("fit <key>", converted value) in fit_properties order
  dsets : List (String × Tok)       -- the six datasets in the order they are written

structure User where
  comment : Tok
  name : Tok
  rate : Tok
  extra : List (String × Tok)       -- user time, time str, library versions (written last)

inductive Write where
  | dataDel (h : String)
  | dataSet (h : String) (tok : Tok)
  | dataPath (h : String) (p : Tok)
  | grpDel (idd : String)
  | grpNew (idd : String)
  | attr (idd : String) (k : String) (v : Tok)
  | dset (idd : String) (k : String) (tok : Tok)
  deriving DecidableEq, Repr

def apply (c : Cont) : Write → Cont
  | .dataDel h => { c with dataKeys := c.dataKeys.filter (· != h),
                           data := fun k => if k = h then none else c.data k }
  | .dataSet h t => { c with dataKeys := if c.dataKeys.contains h then c.dataKeys else c.dataKeys ++ [h],
                             data := fun k => if k = h then some { tok := t, path := none } else c.data k }
  | .dataPath h p => { c with data := fun k => if k = h then (c.data h).map (fun d => { d with path := some p })
                                                else c.data k }
  | .grpDel i => { c with anaKeys := c.anaKeys.filter (· != i),
                          ana := fun k => if k = i then none else c.ana k }
  | .grpNew i => { c with anaKeys := if c.anaKeys.contains i then c.anaKeys else c.anaKeys ++ [i],
                          ana := fun k => if k = i then some { attrs := [], dsets := [] } else c.ana k }
  | .attr i a v => { c with ana := fun k => if k = i then (c.ana i).map (fun g => { g with attrs := aset g.attrs a v })
                                            else c.ana k }
  | .dset i a t => { c with ana := fun k => if k = i then (c.ana i).map (fun g => { g with dsets := aset g.dsets a t })
                                            else c.ana k }

inductive Err where
  | differentFit      -- ValueError("Cannot store rating for different fit ...")
  | injected          -- the injected failure
  | keyErr            -- load: missing member
  deriving DecidableEq, Repr

def userWrites (x : Curve) (u : User) : List Write :=
  [.attr x.idd "user comment" u.comment, .attr x.idd "user name" u.name, .attr x.idd "user rate" u.rate]
  ++ u.extra.map (fun p => .attr x.idd p.1 p.2)

def dataWrites (c : Cont) (x : Curve) : List Write :=
  match c.data x.dhash with
  | some d => if d.path.isSome then []
              else [.dataDel x.dhash, .dataSet x.dhash x.raw, .dataPath x.dhash x.path]
  | none => [.dataSet x.dhash x.raw, .dataPath x.dhash x.path]

def groupWrites (x : Curve) : List Write :=
  [.grpNew x.idd, .attr x.idd "data enum" x.enum, .attr x.idd "data hash" x.dhash]
  ++ x.fitAttrs.map (fun p => .attr x.idd p.1 p.2)
  ++ x.dsets.map (fun p => .dset x.idd p.1 p.2)

/-- the primitive writes of `save_hdf5`, decided on the container as it is when the save starts -/
def plan (c : Cont) (x : Curve) (u : User) : Except Err (List Write) :=
  match c.ana x.idd with
  | some g =>
      if complete g then
        if alookup g.dsets "fit" = alookup x.dsets "fit" then .ok (dataWrites c x ++ userWrites x u)
        else .error .differentFit
      else .ok (dataWrites c x ++ [.grpDel x.idd] ++ groupWrites x ++ userWrites x u)
  | none => .ok (dataWrites c x ++ groupWrites x ++ userWrites x u)

/-- `save_hdf5` with an optional failure injected at the `j`-th write (0-based: the first `j`
writes succeed).  Returns the container as it is on disk afterwards and the outcome. -/
def save (c : Cont) (x : Curve) (u : User) (fault : Option Nat) : Cont × Except Err Unit :=
  match plan c x u with
  | .error e =>
      -- the raw data may have been written before the fit is compared
      match c.ana x.idd with
      | some _ => ((match fault with
                    | some j => (dataWrites c x).take j
                    | none => dataWrites c x).foldl apply c,
                   match fault with
                   | some j => if j < (dataWrites c x).length then .error .injected else .error e
                   | none => .error e)
      | none => (c, .error e)
  | .ok ws =>
      match fault with
      | some j => if j < ws.length then ((ws.take j).foldl apply c, .error .injected)
                  else (ws.foldl apply c, .ok ())
      | none => (ws.foldl apply c, .ok ())

structure Rating where
  idd : String
  group : Group
  deriving DecidableEq, Repr

/-- `load_hdf5`: incomplete groups are skipped; a complete group whose raw data (with its path)
is missing makes the whole load fail -/
def loadKeys (c : Cont) : List String → Except Err (List Rating)
  | [] => .ok []
  | k :: ks =>
      match c.ana k with
      | none => loadKeys c ks
      | some g =>
          if complete g then
            match alookup g.attrs "data hash" with
            | none => .error .keyErr
            | some h =>
                match c.data h with
                | some d => if d.path.isSome then (loadKeys c ks).map (fun rs => { idd := k, group := g } :: rs)
                            else .error .keyErr
                | none => .error .keyErr
          else loadKeys c ks

def load (c : Cont) : Except Err (List Rating) := loadKeys c c.anaKeys

/-- `hdf5_rated` -/
def rated (c : Cont) (idd : String) : Bool :=
  match c.ana idd with
  | some g => complete g
  | none => false

end Nanite.Container
