import Mathlib.Analysis.SpecialFunctions.Pow.Real
import Mathlib.Analysis.SpecialFunctions.Trigonometric.Basic
/-
The documented closed-form contact-mechanics formulas of the five shipped models, written by
hand from the `.. math::` blocks of the model docstrings (src/nanite/model/model_*.py).  The
numeric constants are cross-checked against the live `model_doc` on every run (harness C02).
`d = cp − δ` is the indentation depth; the tip is in contact iff `d > 0`.
-/
namespace Nanite.Spec
open Real

/-- Hertz, paraboloidal indenter: `F = 4/3 · E/(1−ν²) · √R · d^{3/2}` -/
noncomputable def hertzPara (δ E R ν cp b : ℝ) : ℝ :=
  if cp - δ > 0 then 4 / 3 * (E / (1 - ν ^ 2)) * sqrt R * (cp - δ) ^ ((3 : ℝ) / 2) + b else b

/-- Sneddon, conical indenter: `F = 2 tan α / π · E/(1−ν²) · d²` (α in degrees) -/
noncomputable def hertzCone (δ E α ν cp b : ℝ) : ℝ :=
  if cp - δ > 0 then 2 * tan (α * π / 180) / π * (E / (1 - ν ^ 2)) * (cp - δ) ^ 2 + b else b

/-- Bilodeau, three-sided pyramid: `F = 0.8887 tan α · E/(1−ν²) · d²` -/
noncomputable def hertzPyr3s (δ E α ν cp b : ℝ) : ℝ :=
  if cp - δ > 0 then 0.8887 * tan (α * π / 180) * (E / (1 - ν ^ 2)) * (cp - δ) ^ 2 + b else b

/-- the truncated series factor of the Sneddon sphere -/
noncomputable def sphereSeries (x : ℝ) : ℝ :=
  1 - 1 / 10 * x - 1 / 840 * x ^ 2 + 11 / 15120 * x ^ 3 + 1357 / 6652800 * x ^ 4

/-- Sneddon sphere, truncated power series -/
noncomputable def sneddonSpherApprox (δ E R ν cp b : ℝ) : ℝ :=
  if cp - δ > 0 then
    4 / 3 * (E / (1 - ν ^ 2)) * sqrt R * (cp - δ) ^ ((3 : ℝ) / 2) * sphereSeries ((cp - δ) / R) + b
  else b

/-- Clifford 2009 layered power law: `F = 4/3 · E* · √R · d^{3/2}`,
`E* = E_L + (E_S − E_L) · Pξⁿ/(1 + Pξⁿ)`, `ξ = √(R d)/t · (E_L/E_S)^m · (1 − B_S ν_S²)/(1 − B_L ν_L²)`
with `P = 2.25, n = 1.5, m = 2/3, B_S = 0.22, B_L = 1.92` -/
noncomputable def cliffordXi (d E_S E_L R nu_S nu_L t : ℝ) : ℝ :=
  sqrt (R * d) / t * (E_L / E_S) ^ ((2 : ℝ) / 3) * (1 - 0.22 * nu_S ^ 2) / (1 - 1.92 * nu_L ^ 2)

noncomputable def cliffordEstar (d E_S E_L R nu_S nu_L t : ℝ) : ℝ :=
  E_L + (E_S - E_L) * (2.25 * cliffordXi d E_S E_L R nu_S nu_L t ^ (1.5 : ℝ)) /
    (1 + 2.25 * cliffordXi d E_S E_L R nu_S nu_L t ^ (1.5 : ℝ))

noncomputable def powerLayerClifford (δ E_S E_L R nu_S nu_L t cp b : ℝ) : ℝ :=
  if cp - δ > 0 then
    4 / 3 * cliffordEstar (cp - δ) E_S E_L R nu_S nu_L t * sqrt R * (cp - δ) ^ ((3 : ℝ) / 2) + b
  else b

end Nanite.Spec
