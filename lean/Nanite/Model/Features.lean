import Nanite.Model.Preproc
/-
Model of the rating features of `nanite.rate.features.IndentationFeatures` on the approach segment
`x` (tip position), `y` (force), `fit` (fitted force, defined on the whole segment – no NaN) and the
fitted contact point `cp`.  Over a linearly ordered field; numerical library routines are parameters
(`Ext`): `scipy.ndimage.gaussian_filter1d`, `np.std`; the final `np.log` wrappers are applied outside
("core" values: the argument of the logarithm).  `none` = NaN.
-/
namespace Nanite.Features
open Nanite.Poc Nanite.Preproc
variable {K : Type} [Field K] [LinearOrder K] [IsStrictOrderedRing K]

structure Ext (K : Type) where
  /-- `ndimage.gaussian_filter1d(·, sigma)` -/
  gauss : Nat → List K → List K
  /-- `np.std` -/
  sd : List K → K

/-- boolean-mask indexing `v[p(x)]` -/
def maskBy (p : K → Bool) (x v : List K) : List K := ((x.zip v).filter fun t => p t.1).map Prod.snd

/-- Python slice `l[a:b]` with possibly negative bounds -/
def pySlice (l : List K) (a b : Int) : List K :=
  let n : Int := l.length
  let norm (i : Int) : Nat := if i < 0 then (max 0 (i + n)).toNat else (min i n).toNat
  (l.drop (norm a)).take (norm b - norm a)

def res (y fit : List K) : List K := List.zipWith (fun f yi => f - yi) fit y

def countP (p : K → Bool) (l : List K) : Nat := (l.filter p).length

def sumAbs (l : List K) : K := (l.map (|·|)).sum

/-- `np.linspace(a, b, n)` -/
def linspace (a b : K) (n : Nat) : List K :=
  (List.range n).map fun (i : Nat) => a + (i : K) * ((b - a) / ((n : K) - 1))

/-- division as numpy does it for the features: a zero denominator gives NaN / ±inf (`none`) -/
def divO (n d : K) : Option K := if d = 0 then none else some (n / d)

/-! ### features without library routines -/

/-- `feat_bin_cp_position` -/
def binCpPosition (x : List K) (cp : K) : Option Bool :=
  match lmin x, lmax x with
  | some lo, some hi => some (!(decide (cp < lo) || decide (cp > hi)))
  | _, _ => none

/-- `feat_bin_size` (needs no fit) -/
def binSize (y : List K) : Bool := decide (600 ≤ y.length)

/-- `feat_con_apr_size` -/
def aprSize (x : List K) (cp : K) : K :=
  1 - (countP (fun v => decide (v > cp)) x : K) / (x.length : K)

/-- `feat_con_apr_sum` before `log(1 + ·)` -/
def aprSumCore (x y fit : List K) (cp : K) : Option K :=
  match lmax y with
  | none => none
  | some ymax =>
    (divO (sumAbs (maskBy (fun v => decide (v > cp)) x (res y fit))) ((x.length : K) * ymax)).map (· * 100)

/-- `feat_con_idt_sum` before `log(1 + ·) * 5` -/
def idtSumCore (x y fit : List K) (cp : K) : Option K :=
  let diff := maskBy (fun v => decide (v < cp)) x (List.zipWith (fun yi f => yi - f) y fit)
  match lmax y, lmin y with
  | some ymax, some ymin =>
    if diff.length = 0 then none
    else divO (sumAbs diff / (diff.length : K)) (|ymax - ymin| / 2)
  | _, _ => none

/-- index arithmetic shared by the 75 % features: `(idmin, idmax)` -/
def idx75 (x : List K) (cp : K) : Nat × Nat :=
  let id100 := (argmin x).getD 0
  let id000 := (argmin (x.map fun v => |v - cp|)).getD 0
  let id025 := (3 * id000 + id100) / 4
  (min id025 id100, max id025 id100)

/-- `feat_con_idt_sum_75perc` before `log(1 + ·) / 8` -/
def idtSum75Core (x y fit : List K) (cp : K) : Option K :=
  let (idmin, idmax) := idx75 x cp
  match lmax y with
  | none => none
  | some ymax =>
    let ydiff := sumAbs (((List.zipWith (fun yi f => yi - f) y fit).drop idmin).take (idmax - idmin))
    let xnorm := |x.getD idmin 0 - x.getD idmax 0|
    (divO (ydiff * xnorm) ymax).map (· * 1000000)

/-- `feat_con_cp_magnitude` (no logarithm) -/
def cpMagnitude (x y fit : List K) (cp : K) : Option K :=
  let r : Nat := countP (fun v => decide (v < cp)) x / 10
  let cpidx := (argmin (x.map fun v => |v - cp|)).getD 0
  let rng := pySlice (res y fit) ((cpidx : Int) - r) ((cpidx : Int) + r)
  match lmax y with
  | none => none
  | some ymax => if rng.length = 0 then none else (divO (sumAbs rng) ymax).map (· / 100)

/-- the baseline residuals without their last 10 % -/
def blnBaseline (r0 : List K) : List K :=
  if r0.length / 10 ≠ 0 then r0.take (r0.length - r0.length / 10) else r0

/-- `feat_con_bln_variation` before `log(1 + ·) / 5` -/
def blnVariationCore (x y fit : List K) (cp : K) : Option K :=
  let r := blnBaseline (maskBy (fun v => decide (v > cp)) x (res y fit))
  match lmax y with
  | none => none
  | some ymax =>
    if 20 < r.length then
      (divO |mean (r.take 10) - mean (r.drop (r.length - 10))| ymax).map (· * 1000)
    else none

def absDiffNat (a b : Nat) : Nat := if a ≥ b then a - b else b - a

/-- `feat_con_cp_curvature` before `log(1 + |·|) * sign(·) / 4` -/
def cpCurvatureCore (x y : List K) (cp : K) : Option K :=
  let cpid := (argmin (x.map fun v => |v - cp|)).getD 0
  let maxid := (argmax y).getD 0
  let incl := absDiffNat maxid cpid / 10
  if 5 < incl then
    let reg := pySlice y ((cpid : Int) - incl) ((cpid : Int) + incl)
    match lmin reg, lmax reg, lmax y with
    | some lo, some hi, some ymax =>
      (divO (List.zipWith (fun a b => a - b) reg (linspace lo hi reg.length)).sum ymax).map (· * 10)
    | _, _, _ => none
  else none

/-- `feat_con_bln_slope` before `log(1 + |·|) / 10`; `np.linalg.lstsq` is the least-squares line -/
def blnSlopeCore (x y fit : List K) (cp : K) : Option K :=
  match lmax x, lmax y with
  | some xmax, some ymax =>
    let breakp := (xmax + cp) / 2
    let ps := (x.zip (res y fit)).filter fun t => decide (t.1 > breakp)
    if 20 < ps.length then divO (olsSlope ps) ymax else none
  | _, _ => none

/-! ### features using the Gaussian filter / the standard deviation -/

/-- `feat_con_apr_flatness` -/
def aprFlatness (E : Ext K) (x y fit : List K) (cp : K) : Option K :=
  let r := maskBy (fun v => decide (v > cp)) x (res y fit)
  let sigma := max 5 (r.length / 120 / 2 * 2 + 1)
  let g := E.gauss sigma r
  if 2 < g.length then
    let grad := gradient g
    let pos := countP (fun v => decide (v > 0)) grad
    let neg := countP (fun v => decide (v < 0)) grad
    if pos + neg = 0 then none else some ((pos : K) / ((pos : K) + (neg : K)))
  else none

/-- `feat_con_idt_monotony` before `log(1 + ·) / 10`; `none` also stands for the division by zero -/
def idtMonotonyCore (E : Ext K) (x y : List K) (cp : K) : Option K :=
  let a := maskBy (fun v => decide (v < cp)) x y
  let g := E.gauss 2 a
  if 2 < g.length then
    let grad := gradient g
    let gz := |(grad.filter fun v => decide (v > 0)).sum|
    let lz := |(grad.filter fun v => decide (v < 0)).sum|
    divO ((a.length : K) * lz) gz
  else none

/-- the two difference signals of the spike features -/
def spikeSignals (E : Ext K) (diff : List K) : List K × List K :=
  let ds := E.gauss 11 diff
  let delta1 := List.zipWith (fun a b => a - b) diff ds
  let delta2 := List.zipWith (fun a b => a - b) (E.gauss 1 diff) ds
  (delta1, delta2)

/-- number of `True` in `np.diff(boolean array)` -/
def flips : List Bool → Nat
  | a :: b :: r => (if a != b then 1 else 0) + flips (b :: r)
  | _ => 0

/-- `feat_bin_apr_spikes_count` -/
def binSpikesCount (E : Ext K) (x y fit : List K) (cp : K) : Option Bool :=
  let diff := maskBy (fun v => decide (v < cp)) x (res y fit)
  if 50 < diff.length then
    let (d1, d2) := spikeSignals E diff
    let s := E.sd d1
    some (decide (flips (d2.map fun v => decide (|v| > 3 * s)) ≤ 5))
  else none

/-- `feat_con_idt_spike_area` before `log(1 + ·) * 20` -/
def idtSpikeAreaCore (E : Ext K) (x y fit : List K) (cp : K) : Option K :=
  let diff := maskBy (fun v => decide (v < cp)) x (res y fit)
  match lmax y with
  | none => none
  | some ymax =>
    if 20 < diff.length then
      let (d1, d2) := spikeSignals E diff
      let s := E.sd d1
      let peaks := (((d1.zip d2).filter fun t => decide (t.1 > 3 * s)).map fun t => |t.2|).sum
      divO (s + peaks) ymax
    else none

/-- `np.max(np.abs(r[a:b]))`, only evaluated when `a ≠ b` -/
def segMax (r : List K) (a b : Nat) : Option K :=
  if a ≠ b then lmax (((r.drop a).take (b - a)).map (|·|)) else none

/-- `feat_con_idt_maxima_75perc` before `log(1 + ·) * 2` -/
def idtMaxima75Core (E : Ext K) (x y fit : List K) (cp : K) : Option K :=
  let idmin := (idx75 x cp).1
  let idmax := (idx75 x cp).2
  if idmax - idmin > 1 then
    let idcen := idmin + (idmax - idmin) / 2
    let r := List.zipWith (fun yi f => yi - f) y fit
    let sm := E.gauss 11 r
    let z1 := idmin + (argmin (((sm.drop idmin).take (idcen - idmin)).map (|·|))).getD 0
    let z2 := idcen + (argmin (((sm.drop idcen).take (idmax - idcen)).map (|·|))).getD 0
    let ydiffs := [segMax r idmin z1, segMax r z1 z2, segMax r z2 idmax].filterMap id
    match lmax y with
    | none => none
    | some ymax => if ydiffs.isEmpty then none else divO ydiffs.sum ymax
  else none

/-! ### feature names: `get_feature_names`, `compute_features` -/

inductive FType | all | binary | continuous
deriving DecidableEq, Repr

def FType.prefix : FType → String
  | .all => "feat_"
  | .binary => "feat_bin_"
  | .continuous => "feat_con_"

def startsWith (s p : String) : Bool := p.toList.isPrefixOf s.toList

def insertStr (x : String) : List String → List String
  | [] => [x]
  | y :: r => if x ≤ y then x :: y :: r else y :: insertStr x r

def sortStr : List String → List String
  | [] => []
  | x :: r => insertStr x (sortStr r)

/-- `get_feature_names(which_type, names)`: `members` are the routine names of the class in
`inspect.getmembers` order; `which` is a single type (`[t]`) or a list of types; `none` = ValueError
(unknown names) -/
def featureNames (members : List String) (which : List FType) (names : Option (List String)) :
    Option (List String) :=
  let all := members.filter (startsWith · FType.all.prefix)
  let fnames := which.flatMap fun t => members.filter (startsWith · t.prefix)
  match names with
  | some ns =>
    if ns.isEmpty then some (sortStr fnames)
    else if ns.any (fun n => !all.contains n) then none
    else some (sortStr (fnames.filter (ns.contains ·)))
  | none => some (sortStr fnames)

/-- the names `compute_features(which_type, names)` evaluates, in order (`whichIsAll`: the argument
is the string "all") -/
def computeOrder (members : List String) (which : List FType) (whichIsAll : Bool)
    (names : Option (List String)) : Option (List String) :=
  match names with
  | some ns => if whichIsAll then some ns else featureNames members which names
  | none => featureNames members which names

end Nanite.Features
