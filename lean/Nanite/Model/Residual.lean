import Mathlib.Algebra.Order.Field.Basic
import Mathlib.Algebra.Order.AbsoluteValue.Basic
/-
Model of `nanite.model.residuals` (src/nanite/model/residuals.py): contact-point weights,
the default residual and the direction-agnostic modelling wrapper.  Generic over a linearly
ordered field `K` (theorems hold over ℝ and ℚ; the driver executes at ℚ).
-/
namespace Nanite.Residual
variable {K : Type} [Field K] [LinearOrder K] [IsStrictOrderedRing K]

/-- `compute_contact_point_weights` for one abscissa: `x = |δ - cp| / wd; x[x > 1] = 1` -/
def cpWeight (cp wd x : K) : K :=
  if |x - cp| / wd > 1 then 1 else |x - cp| / wd

/-- `residual` for one point: `(force - model) * weight`, no weighting when `weight_cp` is falsy
(`none`) -/
def resid (model : K → K) (weightCp : Option K) (cp : K) (x y : K) : K :=
  match weightCp with
  | some wd => (y - model x) * cpWeight cp wd x
  | none => y - model x

/-- `weight_cp` as the code sees it: `if weight_cp:` – zero and False disable weighting -/
def truthy (w : K) : Option K := if w = 0 then none else some w

/-- `model_direction_agnostic`: the user's function is called on approach-ordered data
(first ≥ last) and its output is returned in the caller's order.  `none` models the
IndexError on an empty abscissa. -/
def wrap {α β : Type} [LinearOrder α] (g : List α → List β) (δ : List α) : Option (List β) :=
  match δ.head?, δ.getLast? with
  | some a, some b => if a < b then some (g δ.reverse).reverse else some (g δ)
  | _, _ => none

end Nanite.Residual
