/-! Value types of the CLI profile model (core Lean only). -/
namespace Nanite.Profile

/-- JSON values stored in the profile; numbers are opaque tokens (`repr` of the Python number) -/
inductive JV where
  | s (x : String)
  | n (tok : String)
  | b (x : Bool)
  | l (xs : List JV)
  | d (kv : List (String × JV))
  deriving Repr, BEq, Inhabited

inductive LegacyKind where
  | list | str | int | float | other
  deriving DecidableEq, Repr

end Nanite.Profile
