import Mathlib.Algebra.Order.Field.Basic
import Mathlib.Algebra.Order.AbsoluteValue.Basic
import Mathlib.Algebra.Order.BigOperators.Group.List
/-
Model of the contact-point estimators of `nanite.poc` (src/nanite/poc.py) that do not call an
optimiser or a filter: `compute_preproc_clip_approach`, `poc_deviation_from_baseline`,
`poc_frechet_direct_path`, the normalisation used by the three fit-based estimators and the NaN
fallback of `compute_poc`.  Generic over a linearly ordered field; NaN results are `none`.
-/
namespace Nanite.Poc
variable {K : Type} [Field K] [LinearOrder K] [IsStrictOrderedRing K]

/-- index of the first maximum (numpy `argmax`), scanning from index `i` with best so far `(bi, bv)` -/
def argmaxAux : List K → Nat → Nat → K → Nat
  | [], _, bi, _ => bi
  | x :: xs, i, bi, bv => if bv < x then argmaxAux xs (i + 1) i x else argmaxAux xs (i + 1) bi bv

def argmax : List K → Option Nat
  | [] => none
  | x :: xs => some (argmaxAux xs 1 0 x)

/-- index of the first minimum (numpy `argmin`) -/
def argminAux : List K → Nat → Nat → K → Nat
  | [], _, bi, _ => bi
  | x :: xs, i, bi, bv => if x < bv then argminAux xs (i + 1) i x else argminAux xs (i + 1) bi bv

def argmin : List K → Option Nat
  | [] => none
  | x :: xs => some (argminAux xs 1 0 x)

def lmax : List K → Option K
  | [] => none
  | x :: r => match lmax r with
    | none => some x
    | some m => some (max x m)

def lmin : List K → Option K
  | [] => none
  | x :: r => match lmin r with
    | none => some x
    | some m => some (min x m)

/-- `compute_preproc_clip_approach`: `force[:argmax(force)]` -/
def clip (f : List K) : List K :=
  match argmax f with
  | none => []
  | some i => f.take i

/-- first index at which the predicate holds (numpy: `argmax` of a boolean array that has a True) -/
def firstIdx (p : K → Bool) : List K → Nat → Option Nat
  | [], _ => none
  | x :: xs, i => if p x then some i else firstIdx p xs (i + 1)

/-- `poc_deviation_from_baseline` -/
def devBaseline (f : List K) : Option Nat :=
  let bl := f.take (f.length / 10)
  if bl.isEmpty then none
  else
    let avg := bl.sum / (bl.length : K)
    match lmax (bl.map (fun b => |b - avg|)) with
    | none => none
    | some m => firstIdx (fun x => decide (x - avg > 2 * m)) f 0

/-- `(force - min) / (max - min)` – the normalisation of the Fréchet and the fit-based estimators -/
def normalise (f : List K) : Option (List K) :=
  match lmin f, lmax f with
  | some lo, some hi => if hi = lo then none else some (f.map (fun x => (x - lo) / (hi - lo)))
  | _, _ => none

/-- `poc_frechet_direct_path`: `argmin (x·s + y·c)` with `x = linspace(0,1,n)`, `y` the normalised
force; `s = sin(−π/4)`, `c = cos(−π/4)` as computed in floating point (any constants) -/
def frechet (s c : K) (f : List K) : Option Nat :=
  match normalise f with
  | none => none
  | some y =>
      let n := f.length
      let x : List K := (List.range n).map (fun (i : Nat) => (i : K) / ((n : K) - 1))
      argmin (List.zipWith (fun xi yi => xi * s + yi * c) x y)

/-- the three fit-based estimators (`fit_constant_line`, `fit_constant_polynomial`,
`fit_line_polynomial`): size guard, normalisation, start index from the Fréchet estimator, and the
optimiser (lmfit/Nelder–Mead) as a parameter `opt` that sees only the normalised force and the start
index; its answer is accepted only when it is a valid index -/
def fitBased (minSize : Nat) (s c : K) (opt : List K → Nat → Option Nat) (f : List K) : Option Nat :=
  if f.length ≤ minSize then none
  else match normalise f with
    | none => none
    | some y =>
      let x0 := (frechet s c f).getD (y.length / 2)
      match opt y x0 with
      | some k => if k < y.length then some k else none
      | none => none

/-- index into the data for scipy's `mode="reflect"` boundary (d c b a | a b c d | d c b a) -/
def reflectIdx (n : Nat) (j : Int) : Nat :=
  let p : Int := 2 * n
  let r := (j % p).toNat
  if r < n then r else 2 * n - 1 - r

/-- `scipy.ndimage.uniform_filter1d(y, size)` (origin 0, reflect): mean over the window
`[i - size/2, i - size/2 + size)` -/
def uniformFilter (size : Nat) (y : List K) : List K :=
  (List.range y.length).map fun (i : Nat) =>
    ((List.range size).map fun (k : Nat) =>
      y.getD (reflectIdx y.length (Int.ofNat i - Int.ofNat (size / 2) + Int.ofNat k)) (y.headD 0)).sum
      / (size : K)

def gradInner : List K → List K
  | a :: b :: c :: r => (c - a) / 2 :: gradInner (b :: c :: r)
  | _ => []

def lastDiff : List K → K
  | [a, b] => b - a
  | _ :: r => lastDiff r
  | [] => 0

/-- `np.gradient(y)` (unit spacing, first-order edges); empty for fewer than two samples -/
def gradient : List K → List K
  | y0 :: y1 :: r => (y1 - y0) :: (gradInner (y0 :: y1 :: r) ++ [lastDiff (y0 :: y1 :: r)])
  | _ => []

/-- last index at which the predicate holds -/
def lastIdx (p : K → Bool) : List K → Nat → Option Nat
  | [], _ => none
  | x :: xs, i => match lastIdx p xs (i + 1) with
    | some j => some j
    | none => if p x then some i else none

/-- `poc_gradient_zero_crossing`; `c` is the constant `0.01` as computed in floating point -/
def gradZero (c : K) (f : List K) : Option Nat :=
  let n := f.length
  let fs := max 5 (n / 100)
  let y := uniformFilter fs f
  if n ≤ 1 then none
  else match argmax y with
    | none => none
    | some am =>
      let grad := (gradient y).take (am - 10)
      if grad.length ≤ 50 then none
      else
        let gradn := uniformFilter fs grad
        match lmax gradn with
        | none => none
        | some mx =>
          match lastIdx (fun g => decide (g ≤ c * mx)) gradn 0 with
          | none => none
          | some j => if j + 1 + fs < n then some (j + 1 + fs) else none

/-- `compute_poc`: clip the approach part, estimate, fall back to the centre of the (clipped) data -/
def computePoc (est : List K → Option Nat) (force : List K) : Nat :=
  match est (clip force) with
  | some cp => cp
  | none => (clip force).length / 2

end Nanite.Poc
