/-
Model of how `IndentationRater.__init__` (src/nanite/rate/rater.py) assembles the scikit-learn pipeline from the
regressor class and the optional `scale` / `lda` arguments:

    if regressor is not None:
        if lda is None:   lda   = False if tree-based else True
        if scale is None: scale = False if tree-based else True
    steps = [StandardScaler]? ++ [LinearDiscriminantAnalysis]? ++ [regressor]?   (identity if empty)

Core Lean only.
-/
namespace Nanite.Pipeline

inductive Step where
  | scaler | lda | regressor | identity
  deriving DecidableEq, Repr

/-- an explicitly given flag is taken as given (`True`/`False`); `None` means the class default -/
def eff (hasReg tree : Bool) (flag : Option Bool) : Bool :=
  match flag with
  | some b => b
  | none => hasReg && !tree

def steps (hasReg tree : Bool) (scale lda : Option Bool) : List Step :=
  let l := (if eff hasReg tree scale then [Step.scaler] else []) ++
           (if eff hasReg tree lda then [Step.lda] else []) ++
           (if hasReg then [Step.regressor] else [])
  if l.isEmpty then [Step.identity] else l

def showStep : Step → String
  | .scaler => "standardscaler" | .lda => "lineardiscriminantanalysis" | .regressor => "regressor"
  | .identity => "functiontransformer"

end Nanite.Pipeline
