/-! Shared basics for the executable models (core Lean only). -/

instance {ε β : Type} [DecidableEq ε] [DecidableEq β] : DecidableEq (Except ε β)
  | .ok a, .ok b => if h : a = b then isTrue (by rw [h]) else isFalse (by intro h'; injection h'; contradiction)
  | .error a, .error b => if h : a = b then isTrue (by rw [h]) else isFalse (by intro h'; injection h'; contradiction)
  | .ok _, .error _ => isFalse (by intro h; cases h)
  | .error _, .ok _ => isFalse (by intro h; cases h)
