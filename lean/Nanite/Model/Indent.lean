import Nanite.Model.Order
import Nanite.Gen.Preproc
import Nanite.Gen.FitKeys
import Nanite.Gen.ModelParams
/-
Model of the bookkeeping of `nanite.indent.Indentation` and `nanite.fit.FitProperties`
(src/nanite/indent.py, src/nanite/fit.py): `FitProperties.__setitem__/reset`,
`apply_preprocessing`, `fit_model`, direct edits of `fit_properties`, `rate_quality`'s cache.
Everything numerical is abstract: the model tracks the *provenance* of every visible result –
the preprocessing pipeline and the fit settings it was computed with.  Core Lean only.

Setting values are the canonical tokens the harness computes (equal tokens ⇔ Python `==`).
-/
namespace Nanite.Indent
open Nanite.Order

inductive V where
  | none                                        -- Python None
  | tok (s : String)                            -- scalar / string / dict …, canonical token
  | range (tuple : Bool) (lo hi : String)       -- range_x (list or tuple of two numbers)
  | params (model : String) (states : List String)  -- lmfit.Parameters with the parameter keys of
                                                -- `model`; one state token per parameter, in key order
  | steps (l : List Nat)                        -- a list of preprocessing step ids
  deriving DecidableEq, Repr

inductive Err where
  | keyErr | valueErr | typeErr | fitKeyErr | fitDataErr
  deriving DecidableEq, Repr

structure Pipe where
  steps : List Nat
  opts : String                                  -- canonical token of the options dictionary
  deriving DecidableEq, Repr

abbrev Settings := String → Option V

def Settings.set (s : Settings) (k : String) (v : V) : Settings := fun k' => if k' = k then some v else s k'
def Settings.del (s : Settings) (k : String) : Settings := fun k' => if k' = k then Option.none else s k'

/-- provenance of a result: the pipeline the data were produced by and the stored settings -/
structure Prov where
  cols : Option Pipe
  settings : Settings

structure RatingKey where
  prov : Option Prov          -- provenance of the fit the rating belongs to (none: "none" hash)
  regressor : String
  trainingSet : String
  names : String
  lda : String

structure St where
  fp : Settings                 -- the FP_DEFAULT part of fit_properties
  res : Option Prov             -- fit results (hash, params_fitted, …) present, with provenance
  fitCols : Option Prov         -- the columns fit / fit residuals / fit range, with provenance
  cols : Option Pipe            -- pipeline of the data columns (none = raw data)
  details : Bool                -- `_preprocessing_details` is non-empty
  attrPre : Pipe                -- self.preprocessing, self.preprocessing_options
  rating : Option RatingKey     -- the rating cache
  scan : Option Prov            -- the E(δ) scan arrays (`optimal_fit_E_array` / `…_delta_array`), with provenance
  nfits : Nat                   -- number of fits performed (optimiser runs)
  nrates : Nat                  -- number of ratings computed (not served from the cache)

def init : St :=
  { fp := fun _ => Option.none, res := Option.none, fitCols := Option.none, cols := Option.none,
    details := false, attrPre := { steps := [], opts := "{}" }, rating := Option.none, scan := Option.none,
    nfits := 0, nrates := 0 }

def isDefaultKey (k : String) : Bool := Nanite.Gen.FitKeys.fpDefaultKeys.contains k
def isResultKey (k : String) : Bool := Nanite.Gen.FitKeys.fpResultKeys.contains k

/-- `FitProperties.reset` (+ the `on_reset` hook of Indentation: the fit columns go as well) -/
def reset (s : St) : St := { s with res := Option.none, fitCols := Option.none, scan := Option.none }

def truthy : Option V → Bool
  | some (.tok "1.0") => true       -- True / 1 / 1.0 all carry the token of float(x)
  | _ => false

/-- `segment` accepts the pre-1.8.0 names -/
def norm (key : String) (value : V) : V :=
  if key = "segment" then
    (if value = .tok "s:approach" then .tok "0.0" else if value = .tok "s:retract" then .tok "1.0" else value)
  else value

/-- what `FitProperties.__setitem__` decides to do -/
inductive Action where
  | keep            -- nothing is stored (result keys are not modelled; ignored range change)
  | storeSame       -- the value equals the stored one: stored again, nothing is reset
  | resetStore      -- a changed setting: results are discarded, the value is stored
  | modelChange     -- changed model key: additionally params_initial := None
  | err (e : Err)
  deriving DecidableEq, Repr

/-- both values are ranges with the same upper bound -/
def sameHi : Option V → V → Bool
  | some (.range _ _ hi0), .range _ _ hi1 => hi0 == hi1
  | _, _ => false

def paramNames (m : String) : List String :=
  ((Nanite.Gen.ModelParams.paramKeys.find? (fun p => p.1 == m)).map Prod.snd).getD []

/-- result of the loop `for pp in self["params_initial"]: … value[pp] …` -/
inductive Cmp where
  | same | differ | missing
  deriving DecidableEq, Repr

/-- walk over the stored parameters (name, state): a name missing in the new set raises KeyError,
the first differing state ends the loop -/
def cmpWalk (new : List (String × String)) : List (String × String) → Cmp
  | [] => .same
  | (n, s0) :: rest =>
      match (new.find? (fun q => q.1 == n)).map Prod.snd with
      | Option.none => .missing
      | some s1 => if s0 = s1 then cmpWalk new rest else .differ

def cmpParams (m0 : String) (st0 : List String) (m1 : String) (st1 : List String) : Cmp :=
  if m0 = m1 then (if st0 = st1 then .same else .differ)
  else match cmpWalk ((paramNames m1).zip st1) ((paramNames m0).zip st0) with
    | .same => .differ        -- (cannot happen for different key lists of the shipped models)
    | c => c

def action (s : St) (key : String) (value : V) : Action :=
  if isDefaultKey key then
    if key = "params_initial" then
      match s.fp key, value with
      | some (.params m0 st0), .params m1 st1 =>
          -- the state of every parameter of the stored set is compared with the new one
          match cmpParams m0 st0 m1 st1 with
          | .missing => .err .keyErr
          | .same => if m0 = m1 ∧ st0 = st1 then .storeSame else .resetStore
          | .differ => .resetStore
      | cur, _ => if cur = some value then .storeSame else .resetStore
    else if s.fp key = some value then .storeSame
    else if key = "model_key" then .modelChange
    else if key = "range_x" && truthy (s.fp "optimal_fit_edelta") && sameHi (s.fp "range_x") value then
      .keep                                    -- change of the lower bound ignored
    else .resetStore
  else if isResultKey key then .keep
  else .err .fitKeyErr

def perform (s : St) (key : String) (value : V) : Action → Except Err St
  | .keep => .ok s
  | .storeSame => .ok { s with fp := s.fp.set key value }
  | .resetStore => .ok { reset s with fp := s.fp.set key value }
  | .modelChange => .ok { reset s with fp := (s.fp.set "params_initial" V.none).set key value }
  | .err e => .error e

/-- `FitProperties.__setitem__` -/
def setitem (s : St) (key : String) (value : V) : Except Err St :=
  perform s key (norm key value) (action s key (norm key value))

/-- acceptance of a preprocessing request: step order (model of C14) and per-step option errors -/
def ppAccept (steps : List Nat) (optErr : List (Option Err)) : Except Err Unit :=
  let rec go (i : Nat) : List Nat → Except Err Unit
    | [] => .ok ()
    | p :: ps =>
        if !(List.range Nanite.Gen.Preproc.names.length).contains p then .error .keyErr
        else if !(Nanite.Gen.Preproc.req p).all (fun r => (steps.take i).contains r) then .error .valueErr
        else match optErr.getD i Option.none with
          | some e => .error e
          | Option.none => go (i + 1) ps
  go 0 steps

/-- state after an accepted request that had to be applied -/
def ppOk (s : St) (steps : List Nat) (opts : String) (retDetails : Bool) : St :=
  { reset s with fp := (s.fp.set "preprocessing" (.steps steps)).set "preprocessing_options" (.tok opts),
                 rating := Option.none, cols := some { steps := steps, opts := opts },
                 details := retDetails, attrPre := { steps := steps, opts := opts } }

/-- state after a rejected request: it is forgotten and the data are reset -/
def ppFail (s : St) : St :=
  { reset s with fp := (s.fp.del "preprocessing").del "preprocessing_options", rating := Option.none,
                 cols := Option.none, details := false }

def storedPipe (s : St) : Option Pipe :=
  match s.fp "preprocessing", s.fp "preprocessing_options" with
  | some (.steps l), some (.tok o) => some { steps := l, opts := o }
  | _, _ => Option.none

/-- whether `apply_preprocessing` has to do anything -/
def needsApply (s : St) (steps : List Nat) (opts : String) (retDetails : Bool) : Bool :=
  decide (storedPipe s ≠ some { steps := steps, opts := opts }) || (!s.details && retDetails)

/-- `Indentation.apply_preprocessing(preprocessing, options, ret_details)` -/
def applyPre (s : St) (steps : List Nat) (opts : String) (optErr : List (Option Err)) (retDetails : Bool) :
    St × Except Err Unit :=
  if needsApply s steps opts retDetails then
    match ppAccept steps optErr with
    | .ok _ => (ppOk s steps opts retDetails, .ok ())
    | .error e => (ppFail s, .error e)
  else ({ s with attrPre := { steps := steps, opts := opts } }, .ok ())

def knownModels : List String := ["s:hertz_para", "s:hertz_cone", "s:hertz_pyr3s", "s:sneddon_spher_approx",
  "s:power_layer_clifford_2009"]

/-- settings with every FP_DEFAULT key present (what `IndentationFitter.fp` holds) -/
def withDefaults (fp : Settings) (defaults : Settings) : Settings :=
  fun k => match fp k with
    | some v => some v
    | Option.none => if isDefaultKey k then defaults k else Option.none

/-- sanity checks of `IndentationFitter.__init__` (on the settings with defaults filled in) -/
def ctorCheck (s : St) (fp : Settings) : Except Err Unit :=
  -- the abscissa column must exist: "tip position" needs the tip-sample separation step
  if !(match s.cols with | some p => p.steps.contains 0 | Option.none => false) then .error .keyErr
  else if fp "range_type" ≠ some (.tok "s:absolute") && fp "range_type" ≠ some (.tok "s:relative cp") then
    .error .fitKeyErr
  else if !(match fp "model_key" with | some (.tok m) => knownModels.contains m | _ => false) then
    .error .fitKeyErr
  else if truthy (fp "optimal_fit_edelta") && fp "range_type" ≠ some (.tok "s:absolute") then .error .fitKeyErr
  else match fp "params_initial", fp "model_key" with
    | some (.params m _), some (.tok mk) =>
        -- every parameter of the model must be in the initial parameters
        if (paramNames ((mk.drop 2).toString)).all (fun n => (paramNames m).contains n) then
          -- (raised by `fit()` after the constructor - the state left behind is the same) the plateau search
          -- rejects every retract segment: `compute_emodulus_vs_mindelta` ends in an unconditional
          -- FitDataError there
          (if truthy (fp "optimal_fit_edelta") && fp "segment" ≠ some (.tok "0.0") then .error .fitDataErr
           else .ok ())
        else .error .fitKeyErr
    | _, _ => .error .fitKeyErr

/-- `IndentationFitter.fp` starts from FP_DEFAULT and receives the stored settings key by key in sorted
order through `__setitem__`: with the plateau search on, a `range_x` whose upper bound equals the default's
is "a change of the lower bound only" and is ignored - the default interval stays -/
def fitterFp (fp : Settings) (defaults : Settings) : Settings :=
  match fp "range_x", defaults "range_x" with
  | some v, some d =>
      if decide (v ≠ d) && truthy (fp "optimal_fit_edelta") && sameHi (some d) v then fp.set "range_x" d else fp
  | _, _ => fp

def insertKw (p : String × V) : List (String × V) → List (String × V)
  | [] => [p]
  | q :: qs => if p.1 < q.1 then p :: q :: qs else q :: insertKw p qs

/-- `sorted(kwargs.keys())` -/
def sortKw : List (String × V) → List (String × V)
  | [] => []
  | p :: ps => insertKw p (sortKw ps)

def kwGet (kw : List (String × V)) (k : String) : Option V := (kw.find? (fun p => p.1 == k)).map Prod.snd

/-- the loop `for arg in sorted(kwargs): fit_properties[arg] = kwargs[arg]`: stops at the first
`__setitem__` that raises, keeping what was stored before -/
def applyKw (s : St) : List (String × V) → St × Option Err
  | [] => (s, Option.none)
  | p :: ps => match setitem s p.1 p.2 with
    | .ok s' => applyKw s' ps
    | .error e => (s, some e)

/-- `Indentation.fit_model(**kw)`; `defaults` = FP_DEFAULT, `optErr` as for `applyPre` -/
def fitModel (defaults : Settings) (s : St) (kw : List (String × V)) (optErr : List (Option Err))
    (guess : String → List String := fun _ => []) : St × Except Err Unit :=
  -- 1. preprocessing requested through fit_model
  let (s1, r1) : St × Except Err Unit :=
    if (kwGet kw "preprocessing").isSome || (kwGet kw "preprocessing_options").isSome then
      let steps := match kwGet kw "preprocessing" with
        | some (.steps l) => l
        | _ => s.attrPre.steps
      let opts := match kwGet kw "preprocessing_options" with
        | some (.tok o) => o
        | _ => s.attrPre.opts
      applyPre s steps opts optErr false
    else (s, .ok ())
  match r1 with
  | .error e => (s1, .error e)
  | .ok _ =>
    -- 2. the default model key, unless one is stored or passed (before the keyword arguments: setting
    --    a model key discards the initial parameters)
    let s1 := if (s1.fp "model_key").isNone && (kwGet kw "model_key").isNone then
        (match setitem s1 "model_key" ((defaults "model_key").getD V.none) with | .ok x => x | .error _ => s1)
      else s1
    -- 3. the keyword arguments, in sorted order
    match applyKw s1 (sortKw kw) with
    | (sPartial, some e) => (sPartial, .error e)
    | (s3, Option.none) =>
      -- 4. default initial parameters (guess from the current data)
      let s4 := if s3.fp "params_initial" = Option.none || s3.fp "params_initial" = some V.none then
          let m := match s3.fp "model_key" with | some (.tok m) => (m.drop 2).toString | _ => ""
          let g := V.params m (guess m)      -- states of the guessed parameters (supplied: numerics)
          (match setitem s3 "params_initial" g with | .ok x => x | .error _ => s3)
        else s3
      -- 5. fit unless the results are current
      if s4.res.isSome then (s4, .ok ())
      else
        let fpFull := fitterFp (withDefaults s4.fp defaults) defaults
        match ctorCheck s4 fpFull with
        | .error e => (s4, .error e)
        | .ok _ =>
            let prov : Prov := { cols := s4.cols, settings := fpFull }
            -- (`idnt.fit_properties = fitter.fp` is a dict.update: a cached scan stays unless the plateau
            --  search of this fit stored a new one)
            ({ s4 with fp := fpFull, res := some prov, fitCols := some prov, nfits := s4.nfits + 1,
                       scan := if truthy (fpFull "optimal_fit_edelta") then some prov else s4.scan }, .ok ())

def sameProv : Option Prov → Option Prov → Bool
  | Option.none, Option.none => true
  | some a, some b => decide (a.cols = b.cols) && Nanite.Gen.FitKeys.fpDefaultKeys.all
      (fun key => decide (a.settings key = b.settings key))
  | _, _ => false

/-- the cached rating may be returned: hash (= provenance of the current fit), regressor, training
set, feature selection and LDA flag are all unchanged -/
def cacheHit (s : St) (regressor ts names lda : String) : Bool :=
  match s.rating with
  | some k => sameProv k.prov s.res && k.regressor == regressor && k.trainingSet == ts &&
      k.names == names && k.lda == lda
  | Option.none => false

/-- `Indentation.rate_quality(regressor, training_set, names, lda)` – cache logic only;
returns the new state and whether the value was served from the cache -/
def isNoneName (r : String) : Bool := r.toList.map Char.toLower == "none".toList

/-- the state after a rating has been computed and cached -/
def withRating (s : St) (regressor ts names lda : String) : St :=
  { s with rating := some (RatingKey.mk s.res regressor ts names lda), nrates := s.nrates + 1 }

def rate (s : St) (regressor ts names lda : String) : St × Bool :=
  if isNoneName regressor then (s, false)
  else if cacheHit s regressor ts names lda then (s, true)
  else (withRating s regressor ts names lda, false)

/-- sanity checks that `IndentationFitter(idnt)` and `compute_emodulus_vs_mindelta` perform when the scan is
requested directly: as `ctorCheck`, but missing initial parameters are guessed by the constructor (always
complete), and every retract segment is refused whether or not the plateau search is on -/
def emodCheck (s : St) (fp : Settings) : Except Err Unit :=
  if !(match s.cols with | some p => p.steps.contains 0 | Option.none => false) then .error .keyErr
  else if fp "range_type" ≠ some (.tok "s:absolute") && fp "range_type" ≠ some (.tok "s:relative cp") then
    .error .fitKeyErr
  else if !(match fp "model_key" with | some (.tok m) => knownModels.contains m | _ => false) then
    .error .fitKeyErr
  else if truthy (fp "optimal_fit_edelta") && fp "range_type" ≠ some (.tok "s:absolute") then .error .fitKeyErr
  else
    let complete := match fp "params_initial", fp "model_key" with
      | some (.params m _), some (.tok mk) =>
          (paramNames ((mk.drop 2).toString)).all (fun n => (paramNames m).contains n)
      | _, _ => true
    if !complete then .error .fitKeyErr
    else if fp "segment" ≠ some (.tok "0.0") then .error .fitDataErr
    else .ok ()

/-- `Indentation.compute_emodulus_mindelta()`: the cached scan is returned while it exists (it is a fit
result: every changed setting discards it); otherwise it is computed for the data columns and the settings
as they are now, and cached.  Nothing else changes. -/
def emod (defaults : Settings) (s : St) : St × Except Err Unit :=
  if s.scan.isSome then (s, .ok ())
  else
    let fpFull := fitterFp (withDefaults s.fp defaults) defaults
    match emodCheck s fpFull with
    | .error e => (s, .error e)
    | .ok _ => ({ s with scan := some { cols := s.cols, settings := fpFull } }, .ok ())

inductive Op where
  | pp (steps : List Nat) (opts : String) (optErr : List (Option Err)) (retDetails : Bool)
  | fit (kw : List (String × V)) (optErr : List (Option Err)) (guess : String → List String)
  | set (key : String) (value : V)                 -- idnt.fit_properties[key] = value
  | rate (regressor ts names lda : String)
  | emod                                           -- idnt.compute_emodulus_mindelta()

def step (defaults : Settings) (s : St) : Op → St × Except Err Unit
  | .pp steps opts oe rd => applyPre s steps opts oe rd
  | .fit kw oe g => fitModel defaults s kw oe g
  | .set k v => match setitem s k v with
      | .ok s' => (s', .ok ())
      | .error e => (s, .error e)
  | .rate r t n l => ((rate s r t n l).1, .ok ())
  | .emod => emod defaults s

def run (defaults : Settings) (s : St) (ops : List Op) : St := ops.foldl (fun st op => (step defaults st op).1) s

end Nanite.Indent
