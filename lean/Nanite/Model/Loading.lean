import Mathlib.Algebra.Order.Field.Basic
/-
Model of the loading wrappers (`nanite.read.load_data`, `nanite.group.IndentationGroup.append`) and of
the quantitative map (`nanite.qmap.QMap` features + `afmformats.AFMQMap._map_grid`).  The file readers
of afmformats are parameters: a file is the list of its curves and the list of progress values its
reader reports.
-/
namespace Nanite.Loading
variable {K : Type} [Field K] [LinearOrder K] [IsStrictOrderedRing K]

/-- `load_data`: the curves of all files, in the order of the paths -/
def loadData {C : Type} (files : List (List C)) : List C := files.flatten

/-- the progress values handed to the user callback: file `ii` of `M` reports `x ↦ (ii + x) / M` -/
def progressFrom (M : Nat) : Nat → List (List K) → List K
  | _, [] => []
  | ii, f :: rest => f.map (fun x => ((ii : K) + x) / (M : K)) ++ progressFrom M (ii + 1) rest

def progress (perFile : List (List K)) : List K := progressFrom perFile.length 0 perFile

/-- `IndentationGroup.append` accepts a curve iff it has a spring constant or a tip position -/
def accepts (hasSpringConstant hasTipPosition : Bool) : Bool := hasSpringConstant || hasTipPosition

/-- `IndentationGroup.append`: the curve is checked first; a refused curve raises and leaves the group as
it was -/
def appendCurve {C : Type} (g : List C) (c : C) (hasSpringConstant hasTipPosition : Bool) : Except Unit (List C) :=
  if accepts hasSpringConstant hasTipPosition then .ok (g ++ [c]) else .error ()

/-- the group after the call, whether it raised or not -/
def groupAfter {C : Type} (g : List C) (c : C) (k t : Bool) : List C :=
  match appendCurve g c k t with
  | .ok g' => g'
  | .error _ => g

/-- a curve of a map: pixel, fit state (`none` = no successful fit), rating (`none` = not rated) -/
structure Curve (K : Type) where
  xi : Nat
  yi : Nat
  fit : Option (K × K)      -- (contact point [m], Young's modulus [Pa]) of the current successful fit
  rating : Option K

inductive Feature | contactPoint | youngsModulus | rating
deriving DecidableEq, Repr

/-- the three uncached map features; `none` = NaN (+ DataMissingWarning) -/
def featureValue (f : Feature) (c : Curve K) : Option K :=
  match f with
  | .contactPoint => c.fit.map fun p => p.1 * 1000000000
  | .youngsModulus => c.fit.map fun p => p.2
  | .rating => c.rating

/-- `_map_grid`: start from an all-NaN grid and write each curve's value at `[yi, xi]` in group order -/
def mapGrid (f : Feature) (cs : List (Curve K)) : Nat → Nat → Option K :=
  cs.foldl (fun g c => fun x y => if x = c.xi ∧ y = c.yi then featureValue f c else g x y) (fun _ _ => none)

end Nanite.Loading
