import Nanite.Model.ProfileTypes
/-
Model of `Profile.load_legacy` (src/nanite/cli/profile.py): the pre-JSON profile format, one
`key = value` line per setting.

    line = line.strip(); var, val = line.split("=", 1); var = var.strip(); val = val.strip()
    segment: "approach" -> "0", "retract" -> "1";  cdict[var] = val          (later lines win)
    typing by the kind of the default (Gen/Profile.legacyKind): fit-parameter `vary` ->
    lower() == "true", fit-parameter value -> float, list -> split(","), str -> verbatim,
    int -> int(), float -> float()

Lines are lists of characters; Python's `float()` / `int()` are NOT modelled: numeric values stay
raw text tokens (`JV.n tok`), the harness compares them as numbers.  Core Lean only.
-/
namespace Nanite.Legacy
open Nanite.Profile

/-- `str.isspace` for the characters `str.strip()` removes in ASCII text -/
def isWs (c : Char) : Bool :=
  c == ' ' || c == '\t' || c == '\n' || c == '\r' || c == '\x0b' || c == '\x0c'

def lstrip (cs : List Char) : List Char := cs.dropWhile isWs
def rstrip (cs : List Char) : List Char := (cs.reverse.dropWhile isWs).reverse
/-- `str.strip()` -/
def strip (cs : List Char) : List Char := rstrip (lstrip cs)

/-- `line.split("=", 1)` unpacked into two names: `none` is Python's ValueError (no `=`) -/
def splitFirst : List Char → Option (List Char × List Char)
  | [] => none
  | c :: cs => if c == '=' then some ([], cs) else
      match splitFirst cs with
      | some (a, b) => some (c :: a, b)
      | none => none

/-- pre-1.8.0 profiles name the segment -/
def normSegment (k v : List Char) : List Char :=
  if k = "segment".toList then
    if v = "approach".toList then "0".toList
    else if v = "retract".toList then "1".toList
    else v
  else v

/-- one line of the file: the (key, raw value) it contributes -/
def parseLine (line : List Char) : Option (List Char × List Char) :=
  match splitFirst (strip line) with
  | none => none
  | some (k, v) => some (strip k, normSegment (strip k) (strip v))

/-- `cdict[var] = val` in file order: a later line replaces an earlier one (its position in the
dict is irrelevant, the result is saved with `sort_keys=True`) -/
def insertKV (d : List (List Char × List Char)) (k v : List Char) : List (List Char × List Char) :=
  (k, v) :: d.filter (fun p => p.1 != k)

/-- first loop of `load_legacy`; `none` = some line has no `=` (ValueError) -/
def rawDict (lines : List (List Char)) : Option (List (List Char × List Char)) :=
  lines.foldl (fun acc line =>
    match acc, parseLine line with
    | some d, some (k, v) => some (insertKV d k v)
    | _, _ => none) (some [])

def lookupRaw (d : List (List Char × List Char)) (k : List Char) : Option (List Char) :=
  (d.find? (fun p => p.1 == k)).map Prod.snd

/-- `str.split(",")` -/
def splitComma : List Char → List (List Char)
  | [] => [[]]
  | c :: cs =>
      match splitComma cs with
      | [] => [[]]
      | h :: t => if c == ',' then [] :: h :: t else (c :: h) :: t

def lower (cs : List Char) : List Char := cs.map Char.toLower

inductive TErr where
  | keyError      -- a key that is neither a fit parameter nor in DEFAULTS
  | indexError    -- list-typed key with fewer than two entries
  deriving DecidableEq, Repr

/-- second loop of `load_legacy`: typing of one raw entry.  `isFloat` is Python's `isfloat`
(abstract); numeric text stays a token. -/
def typed (kinds : List (String × LegacyKind)) (isFloat : List Char → Bool)
    (k v : List Char) : Except TErr JV :=
  if "fit param ".toList.isPrefixOf k then
    if "vary".toList.isSuffixOf k then .ok (.b (lower v == "true".toList))
    else .ok (.n (String.ofList v))
  else
    match (kinds.find? (fun p => p.1.toList == k)).map Prod.snd with
    | none => .error .keyError
    | some .list =>
        -- `if isfloat(val[0]) and isfloat(val[1])`: `val[1]` is only evaluated when `val[0]` is a float
        match splitComma v with
        | a :: b :: rest =>
            if isFloat a && isFloat b then .ok (.l ((a :: b :: rest).map (fun t => .n (String.ofList t))))
            else .ok (.l ((a :: b :: rest).map (fun t => .s (String.ofList t))))
        | [a] => if isFloat a then .error .indexError else .ok (.l [.s (String.ofList a)])
        | [] => .error .indexError
    | some .str => .ok (.s (String.ofList v))
    | some .int => .ok (.n (String.ofList v))
    | some _ => .ok (.n (String.ofList v))

end Nanite.Legacy
