import Nanite.Model.Residual
/-
Model of the numerical glue of `IndentationFitter.fit/_fit` (src/nanite/fit.py): range masks,
the geometrical correction factor, the `fit`/`fit residuals` columns, chi-square, xmin/xmax and
the depth grid of the plateau search.  The optimiser (lmfit) is not modelled: its result `θ`
is an input.  Generic over a linearly ordered field.
-/
namespace Nanite.Fitter
open Nanite.Residual
variable {K : Type} [Field K] [LinearOrder K] [IsStrictOrderedRing K]

/-- absolute range: points of the segment whose abscissa lies in the closed interval;
a zero-width interval selects the whole segment; inverted intervals are normalised -/
def inRange (a b x : K) : Bool := decide (a = b) || (decide (min a b ≤ x) && decide (x ≤ max a b))

def maskAbs (seg : List Bool) (xs : List K) (a b : K) : List Bool :=
  List.zipWith (fun s x => s && inRange a b x) seg xs

/-- the points selected by a mask -/
def select {α : Type} : List Bool → List α → List α
  | m :: ms, x :: xs => if m then x :: select ms xs else select ms xs
  | _, _ => []

def lmin : List K → Option K
  | [] => none
  | x :: xs => match lmin xs with
    | none => some x
    | some m => some (min x m)

def lmax : List K → Option K
  | [] => none
  | x :: xs => match lmax xs with
    | none => some x
    | some m => some (max x m)

/-- one column entry: `some v` inside the segment, NaN (`none`) elsewhere -/
def column (seg : List Bool) (vals : List K) : List (Option K) :=
  List.zipWith (fun s v => if s then some v else none) seg vals

structure FitOut (K : Type) where
  success : Bool
  fit : List (Option K)
  res : List (Option K)
  chiSqr : Option K
  xmin : Option K
  xmax : Option K

/-- the guard of `_fit`: `npvaried < x.shape[0] - 1` -/
def enough (nvaried : Nat) (used : List Bool) (xs : List K) : Bool :=
  decide (nvaried + 1 < (select used xs).length)

/-- the residual column before masking: weighted difference at the k-scaled abscissa -/
def resVals (model : K → K) (cpk : K) (weightCp : Option K) (k : K) (xs ys : List K) : List K :=
  List.zipWith (fun x y => resid model weightCp cpk x y) (xs.map (k * ·)) ys

/-- `_fit` after the optimiser returned `θ` (already in k-scaled units).
`model x` is the model function at the fitted parameters, `cpk` the fitted contact point in
scaled units; `nvaried` the number of varied parameters. -/
def fitOut (model : K → K) (cpk : K) (weightCp : Option K) (k : K) (nvaried : Nat)
    (seg used : List Bool) (xs ys : List K) : FitOut K :=
  if enough nvaried used xs then
    { success := true,
      fit := column seg ((xs.map (k * ·)).map model),
      res := column seg (resVals model cpk weightCp k xs ys),
      chiSqr := some ((select used (resVals model cpk weightCp k xs ys)).map (fun r => r * r)).sum,
      xmin := (lmin ((select used xs).map (k * ·))).map (· / k),
      xmax := (lmax ((select used xs).map (k * ·))).map (· / k) }
  else
    { success := false, fit := seg.map (fun _ => none), res := seg.map (fun _ => none),
      chiSqr := none, xmin := none, xmax := none }

/-- `np.linspace(lo, hi, n)` -/
def linspace (lo hi : K) (n : Nat) : List K :=
  if n = 1 then [lo] else (List.range n).map (fun (i : Nat) => lo + (i : K) * ((hi - lo) / ((n : K) - 1)))

/-- the depth grid of the plateau search: `np.linspace(xmin, xmin * 0.05, n)` -/
def plateauGrid (xmin : K) (n : Nat) : List K := linspace xmin (xmin * (5 / 100)) n

/-- relative-cp ranges: the interval of a pass anchored at the previous contact point -/
def relInterval (a b cp : K) : K × K := (a + cp, b + cp)

end Nanite.Fitter
