import Mathlib.Algebra.Order.Field.Basic
import Mathlib.Algebra.Order.BigOperators.Group.List
/-
Model of `IndentationRater.load_training_set` (after the text files have been read) and of
`IndentationRater.compute_sample_weight` (src/nanite/rate/rater.py), over a linearly ordered field.
Matrix entries are extended values (finite, NaN, ±inf) with numpy's `mean`, `abs`, `max`.
-/
namespace Nanite.TrainingSet
variable {K : Type} [Field K] [LinearOrder K] [IsStrictOrderedRing K]

inductive Ext (K : Type) where
  | fin (x : K)
  | nan
  | pinf
  | ninf
  deriving DecidableEq, Repr

def Ext.isNan : Ext K → Bool
  | .nan => true
  | _ => false

def Ext.isInf : Ext K → Bool
  | .pinf => true
  | .ninf => true
  | _ => false

def Ext.isFinite : Ext K → Bool
  | .fin _ => true
  | _ => false

inductive Err where
  | valueErr            -- numpy: nanmax of an empty array (a column with infinities but no finite entry)
  deriving DecidableEq, Repr

def finites : List (Ext K) → List K
  | [] => []
  | .fin x :: r => x :: finites r
  | _ :: r => finites r

/-- `np.mean` of extended values (no NaN among them) -/
def emean (l : List (Ext K)) : Ext K :=
  if l.contains .pinf && l.contains .ninf then .nan
  else if l.contains .pinf then .pinf
  else if l.contains .ninf then .ninf
  else .fin ((finites l).sum / (l.length : K))

/-- column `j` of a matrix given as rows -/
def colOf (j : Nat) (rows : List (List (Ext K))) : List (Ext K) := rows.filterMap (fun r => r[j]?)

/-- imputation value of column `j`: the mean of the non-NaN entries of zero-rated samples, provided
a zero-rated NaN entry and such a reference entry both exist -/
def imputeVal (zero : List Bool) (rows : List (List (Ext K))) (j : Nat) : Option (Ext K) :=
  let col := (zero.zip rows).filterMap (fun p => (p.2[j]?).map (fun e => (p.1, e)))
  let coloc := col.any (fun p => p.1 && p.2.isNan)
  let ref := (col.filter (fun p => p.1 && !p.2.isNan)).map Prod.snd
  if coloc && !ref.isEmpty then some (emean ref) else none

def imputeEntry (zero : List Bool) (rows : List (List (Ext K))) (z : Bool) (j : Nat) (e : Ext K) : Ext K :=
  if z && e.isNan then (match imputeVal zero rows j with | some v => v | none => e) else e

def imputeRows (zero : List Bool) (rows : List (List (Ext K))) : List (List (Ext K)) :=
  (zero.zip rows).map (fun p => p.2.mapIdx (fun j e => imputeEntry zero rows p.1 j e))

def lmaxAbs : List K → Option K
  | [] => none
  | x :: r => match lmaxAbs r with
    | none => some |x|
    | some m => some (max |x| m)

/-- `extreme = np.nanmax(np.abs(si[~isinf]))` for column `j`.
`none`: the column has no infinity (nothing to do); `some (some x)`: largest finite magnitude `x`;
`some none`: the non-infinite entries are all NaN, numpy returns NaN (with a warning); numpy raises
when there is no non-infinite entry at all -/
def infVal (rows : List (List (Ext K))) (j : Nat) : Except Err (Option (Option K)) :=
  if (colOf j rows).any Ext.isInf then
    if ((colOf j rows).filter (fun e => !e.isInf)).isEmpty then .error .valueErr
    else .ok (some (lmaxAbs (finites (colOf j rows))))
  else .ok none

def replaceEntry (exts : List (Option (Option K))) (j : Nat) (e : Ext K) : Ext K :=
  match e, exts.getD j none with
  | .pinf, some (some x) => .fin (2 * x)
  | .ninf, some (some x) => .fin (-(2 * x))
  | .pinf, some none => .nan
  | .ninf, some none => .nan
  | e, _ => e

def replaceRows (exts : List (Option (Option K))) (rows : List (List (Ext K))) : List (List (Ext K)) :=
  rows.map (fun r => r.mapIdx (fun j e => replaceEntry exts j e))

structure Loaded (K : Type) where
  rows : List (List (Ext K))
  resp : List K

def keepRow (removeNan : Bool) (p : List (Ext K) × K) : Bool := !removeNan || !p.1.any Ext.isNan

/-- `load_training_set` on the selected columns (matrix given as rows, `m` columns in sorted-name
order) -/
def loadClean (impute removeNan replaceInf : Bool) (m : Nat) (rows : List (List (Ext K))) (resp : List K) :
    Except Err (Loaded K) :=
  let zero := resp.map (fun y => decide (y = 0))
  let rows1 := if impute then imputeRows zero rows else rows
  let kept := (rows1.zip resp).filter (keepRow removeNan)
  if replaceInf then
    match (List.range m).mapM (infVal (kept.map Prod.fst)) with
    | .error e => .error e
    | .ok exts => .ok { rows := replaceRows exts (kept.map Prod.fst), resp := kept.map Prod.snd }
  else .ok { rows := kept.map Prod.fst, resp := kept.map Prod.snd }

/-- `compute_sample_weight` for integer ratings -/
def rawWeight (ys : List Int) (y : Int) : K :=
  if 0 ≤ y ∧ y ≤ 10 then 1 / ((ys.count y : Nat) : K) else 0

def sampleWeight (ys : List Int) : List K :=
  let w : List K := ys.map (rawWeight ys)
  w.map (· / w.sum)

end Nanite.TrainingSet
