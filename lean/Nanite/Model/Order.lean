import Nanite.Model.Basic
/-
Model of `nanite.preproc.autosort`, `check_order`, `available` and the acceptance part of
`nanite.preproc.apply` (src/nanite/preproc.py).  Core Lean only.

Identifiers are abstract (`α` with decidable equality); the table (definition order of the
registered steps, `steps_required`, `steps_optional`) is a parameter.  `Nanite.Gen.Preproc`
instantiates it with the table introspected from the live `nanite.preproc.PREPROCESSORS`.

Python exceptions are modelled by `Err`:
  * `keyErr`   – `get_func` on an unknown identifier (`KeyError`), also `apply` on an unknown step
  * `valueErr` – `list.index` on an absent element, or the explicit `ValueError`s of
                 `check_order` / `apply`
-/
namespace Nanite.Order

inductive Err where
  | keyErr
  | valueErr
  deriving DecidableEq, Repr

structure Table (α : Type) where
  steps : List α            -- identifiers in definition order (PREPROCESSORS)
  req   : α → List α        -- steps_required (None ↦ [])
  opt   : α → List α        -- steps_optional (None ↦ [])

variable {α : Type} [DecidableEq α]

def Table.known (T : Table α) (a : α) : Bool := T.steps.contains a

/-- Python `l.index(a)`: `none` models the `ValueError`. -/
def pyIndex (l : List α) (a : α) : Option Nat :=
  if a ∈ l then some (l.idxOf a) else none

/-- precursors of `pid` as computed inside `autosort` -/
def precursors (T : Table α) (ids : List α) (pid : α) : List α :=
  T.req pid ++ (T.opt pid).filter (fun o => ids.contains o)

/-- inner loop body: make sure `step` is in front of `pid` in the working list -/
def moveStep (pid : α) (work : List α) (step : α) : Except Err (List α) :=
  match pyIndex work pid, pyIndex work step with
  | some cix, some rix =>
      if rix > cix then .ok ((work.erase step).insertIdx cix step) else .ok work
  | _, _ => .error .valueErr

def movePid (T : Table α) (ids : List α) (work : List α) (pid : α) : Except Err (List α) :=
  if T.known pid then
    (precursors T ids pid).foldlM (moveStep pid) work
  else .error .keyErr

/-- one pass of the outer `for pid in identifiers` loop -/
def sortPass (T : Table α) (ids : List α) (work : List α) : Except Err (List α) :=
  ids.foldlM (movePid T ids) work

/-- `check_order` for one position -/
def checkAt (T : Table α) (ids : List α) (cix : Nat) (pid : α) : Except Err Unit :=
  if !T.known pid then .error .keyErr else
  -- required: every `.index` must succeed, then none may be larger than cix
  if (T.req pid).any (fun r => !ids.contains r) then .error .valueErr else
  if (T.req pid).any (fun r => ids.idxOf r > cix) then .error .valueErr else
  if ((T.opt pid).filter (fun o => ids.contains o)).any (fun o => ids.idxOf o > cix)
  then .error .valueErr else .ok ()

def checkFrom (T : Table α) (ids : List α) : Nat → List α → Except Err Unit
  | _, [] => .ok ()
  | i, p :: ps => do checkAt T ids i p; checkFrom T ids (i+1) ps

def checkOrder (T : Table α) (ids : List α) : Except Err Unit := checkFrom T ids 0 ids

/-- `autosort` as shipped at the pinned commit: a single pass, then `check_order`. -/
def autosort1 (T : Table α) (ids : List α) : Except Err (List α) := do
  let s ← sortPass T ids ids
  checkOrder T s
  pure s

/-- repeated passes until a pass changes nothing (fuel-bounded) -/
def sortLoop (T : Table α) (ids : List α) : Nat → List α → Except Err (List α)
  | 0, work => .ok work
  | n+1, work => do
      let w ← sortPass T ids work
      if w = work then pure w else sortLoop T ids n w

/-- `autosort` after the repair (passes are repeated until nothing moves; the number of
passes is bounded by `len(identifiers)`), then `check_order`. -/
def autosort (T : Table α) (ids : List α) : Except Err (List α) := do
  let s ← sortLoop T ids (ids.length + 1) ids
  checkOrder T s
  pure s

/-- acceptance part of `preproc.apply`: every identifier must be available and all its
required steps must occur earlier in the list. `avail` is `available()`. -/
def applyFrom (T : Table α) (avail : List α) (ids : List α) : Nat → List α → Except Err Unit
  | _, [] => .ok ()
  | i, p :: ps =>
      if avail.contains p then
        if (T.req p).all (fun r => (ids.take i).contains r) then applyFrom T avail ids (i+1) ps
        else .error .valueErr
      else .error .keyErr

def applyOrder (T : Table α) (avail : List α) (ids : List α) : Except Err Unit :=
  applyFrom T avail ids 0 ids

/-- the list `preproc.apply` works on: the deprecated keyword `preproc_names`, when given, replaces
`identifiers` - before anything is validated -/
def resolveIds (identifiers preprocNames : Option (List α)) : List α :=
  match preprocNames with
  | some l => l
  | none => identifiers.getD []

/-- `preproc.apply(apret, identifiers, …, preproc_names)` – acceptance -/
def applyArgs (T : Table α) (avail : List α) (identifiers preprocNames : Option (List α)) : Except Err Unit :=
  applyOrder T avail (resolveIds identifiers preprocNames)

/-- a selection contains the required steps of each of its members -/
def closed (T : Table α) (ids : List α) : Bool :=
  ids.all (fun p => (T.req p).all (fun r => ids.contains r))

/-- all ordered duplicate-free selections of the elements of a list -/
def selections : List α → List (List α)
  | [] => [[]]
  | x :: xs =>
      let rest := selections xs
      rest ++ rest.flatMap (fun l => (List.range (l.length + 1)).map (fun i => l.insertIdx i x))

end Nanite.Order
