import Nanite.Model.Container
/-! Lemmas for the rating-container model (C16). Core Lean only. -/
namespace Nanite.Container

/-! ### association lists -/
theorem alookup_aset_self (l : List (String × Tok)) (k : String) (v : Tok) :
    alookup (aset l k v) k = some v := by
  simp [alookup, aset]

theorem alookup_aset_other (l : List (String × Tok)) (k k' : String) (v : Tok) (h : k' ≠ k) :
    alookup (aset l k v) k' = alookup l k' := by
  unfold alookup aset
  have h1 : (k == k') = false := by simp [Ne.symm h]
  rw [List.find?_cons]
  simp only [h1]
  congr 1
  induction l with
  | nil => rfl
  | cons p ps ih =>
    by_cases hp : p.1 = k
    · have a : (p.1 != k) = false := by simp [hp]
      have b : (p.1 == k') = false := by simp [hp, Ne.symm h]
      rw [List.filter_cons, a, List.find?_cons, b]
      simpa using ih
    · have a : (p.1 != k) = true := by simp [hp]
      rw [List.filter_cons, a]
      simp only [↓reduceIte, List.find?_cons]
      rw [ih]

theorem alookup_aset (l : List (String × Tok)) (k k' : String) (v : Tok) :
    alookup (aset l k v) k' = if k' = k then some v else alookup l k' := by
  by_cases h : k' = k
  · subst h; simp [alookup_aset_self]
  · simp [h, alookup_aset_other _ _ _ _ h]

theorem alookup_aset_isSome (l : List (String × Tok)) (k k' : String) (v : Tok)
    (h : (alookup l k').isSome = true) : (alookup (aset l k v) k').isSome = true := by
  by_cases hk : k' = k
  · subst hk; simp [alookup_aset_self]
  · rw [alookup_aset_other _ _ _ _ hk]; exact h

/-! ### projections of a write onto one analysis group / one raw-data entry -/
def gstep (idd : String) (og : Option Group) : Write → Option Group
  | .grpDel i => if idd = i then none else og
  | .grpNew i => if idd = i then some { attrs := [], dsets := [] } else og
  | .attr i a v => if idd = i then og.map (fun g => { g with attrs := aset g.attrs a v }) else og
  | .dset i a t => if idd = i then og.map (fun g => { g with dsets := aset g.dsets a t }) else og
  | _ => og

def dstep (h : String) (od : Option Data) : Write → Option Data
  | .dataDel i => if h = i then none else od
  | .dataSet i t => if h = i then some { tok := t, path := none } else od
  | .dataPath i p => if h = i then od.map (fun d => { d with path := some p }) else od
  | _ => od

theorem apply_ana (c : Cont) (w : Write) (k : String) : (apply c w).ana k = gstep k (c.ana k) w := by
  cases w <;> simp only [apply, gstep]
  all_goals (split <;> simp_all)
  all_goals (rename_i h; subst h; rfl)

theorem apply_data (c : Cont) (w : Write) (k : String) : (apply c w).data k = dstep k (c.data k) w := by
  cases w <;> simp only [apply, dstep]
  all_goals (split <;> simp_all)
  all_goals (rename_i h; subst h; rfl)

theorem foldl_ana (ws : List Write) (c : Cont) (k : String) :
    (ws.foldl apply c).ana k = ws.foldl (gstep k) (c.ana k) := by
  induction ws generalizing c with
  | nil => rfl
  | cons w ws ih => simp only [List.foldl_cons]; rw [ih, apply_ana]

theorem foldl_data (ws : List Write) (c : Cont) (k : String) :
    (ws.foldl apply c).data k = ws.foldl (dstep k) (c.data k) := by
  induction ws generalizing c with
  | nil => rfl
  | cons w ws ih => simp only [List.foldl_cons]; rw [ih, apply_data]

/-- the write concerns only the analysis group `idd` and the raw data entry `h` -/
def ForCurve (idd h : String) : Write → Prop
  | .dataDel i => i = h
  | .dataSet i _ => i = h
  | .dataPath i _ => i = h
  | .grpDel i => i = idd
  | .grpNew i => i = idd
  | .attr i _ _ => i = idd
  | .dset i _ _ => i = idd

theorem gstep_other (idd h k : String) (og : Option Group) (w : Write) (hw : ForCurve idd h w)
    (hk : k ≠ idd) : gstep k og w = og := by
  cases w <;> simp only [gstep, ForCurve] at * <;> (try rfl)
  all_goals (subst hw; simp [hk])

theorem dstep_other (idd h k : String) (od : Option Data) (w : Write) (hw : ForCurve idd h w)
    (hk : k ≠ h) : dstep k od w = od := by
  cases w <;> simp only [dstep, ForCurve] at * <;> (try rfl)
  all_goals (subst hw; simp [hk])

theorem foldl_gstep_other (idd h k : String) (ws : List Write) (og : Option Group)
    (hw : ∀ w ∈ ws, ForCurve idd h w) (hk : k ≠ idd) : ws.foldl (gstep k) og = og := by
  induction ws generalizing og with
  | nil => rfl
  | cons w ws ih =>
    simp only [List.foldl_cons]
    rw [gstep_other idd h k og w (hw w List.mem_cons_self) hk]
    exact ih og (fun w' hw' => hw w' (List.mem_cons_of_mem _ hw'))

theorem foldl_dstep_other (idd h k : String) (ws : List Write) (od : Option Data)
    (hw : ∀ w ∈ ws, ForCurve idd h w) (hk : k ≠ h) : ws.foldl (dstep k) od = od := by
  induction ws generalizing od with
  | nil => rfl
  | cons w ws ih =>
    simp only [List.foldl_cons]
    rw [dstep_other idd h k od w (hw w List.mem_cons_self) hk]
    exact ih od (fun w' hw' => hw w' (List.mem_cons_of_mem _ hw'))

/-- every write planned for a curve concerns only that curve -/
theorem dataWrites_for (c : Cont) (x : Curve) : ∀ w ∈ dataWrites c x, ForCurve x.idd x.dhash w := by
  intro w hw
  unfold dataWrites at hw
  split at hw
  · split at hw
    · simp at hw
    · simp only [List.mem_cons, List.mem_nil_iff, or_false] at hw
      rcases hw with h | h | h <;> subst h <;> simp [ForCurve]
  · simp only [List.mem_cons, List.mem_nil_iff, or_false] at hw
    rcases hw with h | h <;> subst h <;> simp [ForCurve]

theorem groupWrites_for (x : Curve) : ∀ w ∈ groupWrites x, ForCurve x.idd x.dhash w := by
  intro w hw
  unfold groupWrites at hw
  simp only [List.cons_append, List.nil_append, List.mem_cons, List.mem_append, List.mem_map] at hw
  rcases hw with h | h | h | ⟨p, _, h⟩ | ⟨p, _, h⟩ <;> subst h <;> simp [ForCurve]

theorem userWrites_for (x : Curve) (u : User) : ∀ w ∈ userWrites x u, ForCurve x.idd x.dhash w := by
  intro w hw
  unfold userWrites at hw
  simp only [List.cons_append, List.nil_append, List.mem_cons, List.mem_append, List.mem_map,
    List.mem_nil_iff, false_or] at hw
  rcases hw with h | h | h | ⟨p, _, h⟩ <;> subst h <;> simp [ForCurve]

theorem plan_for (c : Cont) (x : Curve) (u : User) (ws : List Write) (h : plan c x u = .ok ws) :
    ∀ w ∈ ws, ForCurve x.idd x.dhash w := by
  intro w hw
  unfold plan at h
  split at h
  · split at h
    · split at h
      · injection h with h; subst h
        rcases List.mem_append.mp hw with h1 | h1
        · exact dataWrites_for c x w h1
        · exact userWrites_for x u w h1
      · simp at h
    · injection h with h; subst h
      simp only [List.append_assoc, List.mem_append, List.mem_cons, List.mem_nil_iff, or_false] at hw
      rcases hw with h1 | h1 | h1 | h1
      · exact dataWrites_for c x w h1
      · subst h1; simp [ForCurve]
      · exact groupWrites_for x w h1
      · exact userWrites_for x u w h1
  · injection h with h; subst h
    simp only [List.append_assoc, List.mem_append] at hw
    rcases hw with h1 | h1 | h1
    · exact dataWrites_for c x w h1
    · exact groupWrites_for x w h1
    · exact userWrites_for x u w h1


/-! ### data writes vs. group writes -/
def IsData : Write → Prop
  | .dataDel _ => True
  | .dataSet _ _ => True
  | .dataPath _ _ => True
  | _ => False

def IsGrp (w : Write) : Prop := ¬ IsData w

theorem gstep_data (k : String) (og : Option Group) (w : Write) (hw : IsData w) : gstep k og w = og := by
  cases w <;> simp_all [IsData, gstep]

theorem dstep_grp (k : String) (od : Option Data) (w : Write) (hw : IsGrp w) : dstep k od w = od := by
  cases w <;> simp_all [IsGrp, IsData, dstep]

theorem foldl_gstep_data (k : String) (ws : List Write) (og : Option Group) (hw : ∀ w ∈ ws, IsData w) :
    ws.foldl (gstep k) og = og := by
  induction ws generalizing og with
  | nil => rfl
  | cons w ws ih =>
    simp only [List.foldl_cons]
    rw [gstep_data k og w (hw w List.mem_cons_self)]
    exact ih og (fun w' hw' => hw w' (List.mem_cons_of_mem _ hw'))

theorem foldl_dstep_grp (k : String) (ws : List Write) (od : Option Data) (hw : ∀ w ∈ ws, IsGrp w) :
    ws.foldl (dstep k) od = od := by
  induction ws generalizing od with
  | nil => rfl
  | cons w ws ih =>
    simp only [List.foldl_cons]
    rw [dstep_grp k od w (hw w List.mem_cons_self)]
    exact ih od (fun w' hw' => hw w' (List.mem_cons_of_mem _ hw'))

theorem dataWrites_isData (c : Cont) (x : Curve) : ∀ w ∈ dataWrites c x, IsData w := by
  intro w hw
  unfold dataWrites at hw
  split at hw
  · split at hw
    · simp at hw
    · simp only [List.mem_cons, List.mem_nil_iff, or_false] at hw
      rcases hw with h | h | h <;> subst h <;> simp [IsData]
  · simp only [List.mem_cons, List.mem_nil_iff, or_false] at hw
    rcases hw with h | h <;> subst h <;> simp [IsData]

theorem groupWrites_isGrp (x : Curve) : ∀ w ∈ groupWrites x, IsGrp w := by
  intro w hw
  unfold groupWrites at hw
  simp only [List.cons_append, List.nil_append, List.mem_cons, List.mem_append, List.mem_map] at hw
  rcases hw with h | h | h | ⟨p, _, h⟩ | ⟨p, _, h⟩ <;> subst h <;> simp [IsGrp, IsData]

theorem userWrites_isGrp (x : Curve) (u : User) : ∀ w ∈ userWrites x u, IsGrp w := by
  intro w hw
  unfold userWrites at hw
  simp only [List.cons_append, List.nil_append, List.mem_cons, List.mem_append, List.mem_map,
    List.mem_nil_iff, false_or] at hw
  rcases hw with h | h | h | ⟨p, _, h⟩ <;> subst h <;> simp [IsGrp, IsData]

/-- after all data writes of a save the raw data entry exists and has its path -/
theorem dataWrites_result (c : Cont) (x : Curve) :
    ∃ d, (dataWrites c x).foldl (dstep x.dhash) (c.data x.dhash) = some d ∧ d.path.isSome = true := by
  unfold dataWrites
  cases hd : c.data x.dhash with
  | none => simp [dstep]
  | some d =>
    by_cases hp : d.path.isSome = true
    · simp [hp]
    · simp [hp, dstep]

/-- … and if the entry was already intact, nothing is written -/
theorem dataWrites_nil (c : Cont) (x : Curve) (d : Data) (hd : c.data x.dhash = some d)
    (hp : d.path.isSome = true) : dataWrites c x = [] := by
  simp [dataWrites, hd, hp]

theorem foldl_inv {α β : Type} (P : α → Prop) (f : α → β → α) (ws : List β) (a : α) (h0 : P a)
    (hstep : ∀ a w, w ∈ ws → P a → P (f a w)) : P (ws.foldl f a) := by
  induction ws generalizing a with
  | nil => exact h0
  | cons w ws ih =>
    simp only [List.foldl_cons]
    exact ih _ (hstep a w List.mem_cons_self h0) (fun a' w' hw' => hstep a' w' (List.mem_cons_of_mem _ hw'))

/-- keys that must not be used by fit settings / extra user attributes -/
structure WF (x : Curve) (u : User) : Prop where
  fitKeys : ∀ p ∈ x.fitAttrs, p.1 ≠ "data hash"
  extraKeys : ∀ p ∈ u.extra, p.1 ≠ "data hash"

/-- a write sets the "data hash" attribute only to the hash of the curve being saved -/
def HashOK (x : Curve) : Write → Prop
  | .attr _ a v => a = "data hash" → v = x.dhash
  | _ => True

theorem groupWrites_hashOK (x : Curve) (u : User) (wf : WF x u) : ∀ w ∈ groupWrites x, HashOK x w := by
  intro w hw
  unfold groupWrites at hw
  simp only [List.cons_append, List.nil_append, List.mem_cons, List.mem_append, List.mem_map] at hw
  rcases hw with h | h | h | ⟨p, hp, h⟩ | ⟨p, _, h⟩ <;> subst h <;> simp [HashOK]
  exact fun e => absurd e (wf.fitKeys p hp)

/-- user writes never touch the "data hash" attribute -/
def NoHash : Write → Prop
  | .attr _ a _ => a ≠ "data hash"
  | .grpDel _ => False
  | .grpNew _ => False
  | .dset _ _ _ => False
  | _ => True

theorem userWrites_noHash (x : Curve) (u : User) (wf : WF x u) : ∀ w ∈ userWrites x u, NoHash w := by
  intro w hw
  unfold userWrites at hw
  simp only [List.cons_append, List.nil_append, List.mem_cons, List.mem_append, List.mem_map,
    List.mem_nil_iff, false_or] at hw
  rcases hw with h | h | h | ⟨p, hp, h⟩ <;> subst h <;> simp [NoHash]
  exact wf.extraKeys p hp

theorem userWrites_hashOK (x : Curve) (u : User) (wf : WF x u) : ∀ w ∈ userWrites x u, HashOK x w := by
  intro w hw
  have := userWrites_noHash x u wf w hw
  cases w <;> simp_all [HashOK, NoHash]

/-- invariant: if the group has a "data hash" attribute it is the hash of the curve -/
def HashIs (x : Curve) (og : Option Group) : Prop :=
  ∀ g, og = some g → ∀ v, alookup g.attrs "data hash" = some v → v = x.dhash

theorem gstep_hashIs (x : Curve) (og : Option Group) (w : Write) (hw : HashOK x w) (h : HashIs x og) :
    HashIs x (gstep x.idd og w) := by
  intro g hg v hv
  cases w with
  | dataDel _ => exact h g hg v hv
  | dataSet _ _ => exact h g hg v hv
  | dataPath _ _ => exact h g hg v hv
  | grpDel i =>
    simp only [gstep] at hg
    split at hg
    · simp at hg
    · exact h g hg v hv
  | grpNew i =>
    simp only [gstep] at hg
    split at hg
    · injection hg with hg; subst hg; simp [alookup] at hv
    · exact h g hg v hv
  | dset i a t =>
    simp only [gstep] at hg
    split at hg
    · cases og with
      | none => simp at hg
      | some g0 =>
        simp only [Option.map_some, Option.some.injEq] at hg
        subst hg
        exact h g0 rfl v hv
    · exact h g hg v hv
  | attr i a val =>
    simp only [gstep] at hg
    split at hg
    · cases og with
      | none => simp at hg
      | some g0 =>
        simp only [Option.map_some, Option.some.injEq] at hg
        subst hg
        simp only at hv
        by_cases ha : a = "data hash"
        · subst ha
          rw [alookup_aset_self] at hv
          injection hv with hv
          rw [← hv]
          exact hw rfl
        · rw [alookup_aset_other _ _ _ _ (Ne.symm ha)] at hv
          exact h g0 rfl v hv
    · exact h g hg v hv

/-- invariant for re-saving: the group stays complete and keeps its "data hash" -/
def KeepsHash (g0 : Group) (og : Option Group) : Prop :=
  ∃ g, og = some g ∧ alookup g.attrs "data hash" = alookup g0.attrs "data hash" ∧
    (complete g0 = true → complete g = true) ∧ g.dsets = g0.dsets

theorem complete_aset (g : Group) (a : String) (v : Tok) (h : complete g = true) :
    complete { g with attrs := aset g.attrs a v } = true := by
  unfold complete at *
  simp only [Bool.and_eq_true, List.all_eq_true] at *
  exact ⟨h.1, fun n hn => alookup_aset_isSome _ _ _ _ (h.2 n hn)⟩

theorem gstep_keepsHash (idd : String) (g0 : Group) (og : Option Group) (w : Write) (hw : NoHash w)
    (h : KeepsHash g0 og) : KeepsHash g0 (gstep idd og w) := by
  obtain ⟨g, hg, hh, hc, hd⟩ := h
  subst hg
  cases w with
  | dataDel _ => exact ⟨g, rfl, hh, hc, hd⟩
  | dataSet _ _ => exact ⟨g, rfl, hh, hc, hd⟩
  | dataPath _ _ => exact ⟨g, rfl, hh, hc, hd⟩
  | grpDel i => exact absurd hw (by simp [NoHash])
  | grpNew i => exact absurd hw (by simp [NoHash])
  | dset i a t => exact absurd hw (by simp [NoHash])
  | attr i a val =>
    simp only [gstep]
    split
    · simp only [NoHash] at hw
      refine ⟨_, rfl, ?_, fun hc0 => complete_aset g a val (hc hc0), hd⟩
      simp only [Option.map_some]
      rw [alookup_aset_other _ _ _ _ (Ne.symm hw)]
      exact hh
    · exact ⟨g, rfl, hh, hc, hd⟩

end Nanite.Container
