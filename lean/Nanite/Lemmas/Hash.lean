import Nanite.Model.Hash
/-! Lemmas about the length-prefixed list encoding of `obj2bytes` (C12). Core Lean only. -/
namespace Nanite.Hash

theorem digits_ne_nil (n : Nat) : digits n ≠ [] := by
  unfold digits
  split <;> simp

theorem digits_range (n : Nat) : ∀ d ∈ digits n, 48 ≤ d ∧ d ≤ 57 := by
  induction n using Nat.strongRecOn with
  | _ n ih =>
    intro d hd
    unfold digits at hd
    split at hd
    · simp at hd; omega
    · rename_i h
      simp only [List.mem_append, List.mem_singleton] at hd
      cases hd with
      | inl h1 => exact ih (n / 10) (by omega) d h1
      | inr h1 => omega

theorem colon_not_mem_digits (n : Nat) : 58 ∉ digits n := by
  intro h
  have := digits_range n 58 h
  omega

theorem digits_length_ge_two (n : Nat) (h : ¬ n < 10) : 2 ≤ (digits n).length := by
  unfold digits
  simp only [h, ↓reduceDIte, List.length_append, List.length_cons, List.length_nil]
  have := digits_ne_nil (n / 10)
  have : 0 < (digits (n / 10)).length := List.length_pos_iff.mpr this
  omega

theorem digits_of_ge (n : Nat) (h : ¬ n < 10) : digits n = digits (n / 10) ++ [48 + n % 10] := by
  rw [digits]; simp [h]

theorem digits_inj : ∀ n m : Nat, digits n = digits m → n = m := by
  intro n
  induction n using Nat.strongRecOn with
  | _ n ih =>
    intro m h
    by_cases hn : n < 10
    · by_cases hm : m < 10
      · unfold digits at h
        simp only [hn, hm, ↓reduceDIte, List.cons.injEq, and_true] at h
        omega
      · have h2 := digits_length_ge_two m hm
        rw [← h] at h2
        unfold digits at h2
        simp [hn] at h2
    · by_cases hm : m < 10
      · have h2 := digits_length_ge_two n hn
        rw [h] at h2
        unfold digits at h2
        simp [hm] at h2
      · rw [digits_of_ge n hn, digits_of_ge m hm] at h
        have hh := List.append_inj' h (by simp)
        have h1 := ih (n / 10) (by omega) (m / 10) hh.1
        have h2 : 48 + n % 10 = 48 + m % 10 := by simpa using hh.2
        omega

/-- splitting at the first `:` is unambiguous -/
theorem split_colon (xs ys u v : Bytes) (hx : 58 ∉ xs) (hy : 58 ∉ ys)
    (h : xs ++ 58 :: u = ys ++ 58 :: v) : xs = ys ∧ u = v := by
  induction xs generalizing ys with
  | nil =>
    cases ys with
    | nil => simpa using h
    | cons y ys =>
      simp only [List.nil_append, List.cons_append, List.cons.injEq] at h
      exact absurd (h.1 ▸ List.mem_cons_self) hy
  | cons x xs ih =>
    cases ys with
    | nil =>
      simp only [List.nil_append, List.cons_append, List.cons.injEq] at h
      exact absurd (h.1 ▸ List.mem_cons_self) hx
    | cons y ys =>
      simp only [List.cons_append, List.cons.injEq] at h
      have := ih ys (fun hm => hx (List.mem_cons_of_mem _ hm))
        (fun hm => hy (List.mem_cons_of_mem _ hm)) h.2
      exact ⟨by rw [h.1, this.1], this.2⟩

/-- one framed item can be read back off the front of a byte string -/
theorem frame_append_inj (b b' r r' : Bytes) (h : frame b ++ r = frame b' ++ r') :
    b = b' ∧ r = r' := by
  unfold frame at h
  simp only [List.append_assoc, List.cons_append] at h
  have hs := split_colon _ _ _ _ (colon_not_mem_digits _) (colon_not_mem_digits _) h
  have hl := digits_inj _ _ hs.1
  exact List.append_inj hs.2 hl

theorem frame_ne_nil (b : Bytes) : frame b ≠ [] := by
  unfold frame
  simp

/-- **the list framing is injective**: equal encodings ⇒ equal item encodings -/
theorem frames_inj : ∀ bs bs' : List Bytes, frames bs = frames bs' → bs = bs' := by
  intro bs
  induction bs with
  | nil =>
    intro bs' h
    cases bs' with
    | nil => rfl
    | cons b bs' =>
      simp only [frames] at h
      have := frame_ne_nil b
      cases hb : frame b with
      | nil => exact absurd hb this
      | cons x xs => rw [hb] at h; simp at h
  | cons b bs ih =>
    intro bs' h
    cases bs' with
    | nil =>
      simp only [frames] at h
      have := frame_ne_nil b
      cases hb : frame b with
      | nil => exact absurd hb this
      | cons x xs => rw [hb] at h; simp at h
    | cons b' bs' =>
      simp only [frames] at h
      have := frame_append_inj _ _ _ _ h
      rw [this.1, ih bs' this.2]

theorem encList_eq_map (l : List PV) : encList l = l.map enc := by
  induction l with
  | nil => simp [encList]
  | cons x xs ih => simp [encList, ih]

end Nanite.Hash

namespace Nanite.Hash
/-! ### `sorted(d.items())` does not depend on the insertion order of the dictionary -/

theorem lexLt_irrefl : ∀ a : Bytes, lexLt a a = false := by
  intro a
  induction a with
  | nil => rfl
  | cons x xs ih => simp [lexLt, ih]

theorem lexLt_asymm : ∀ a b : Bytes, lexLt a b = true → lexLt b a = false := by
  intro a
  induction a with
  | nil => intro b _; cases b <;> simp [lexLt]
  | cons x xs ih =>
    intro b h
    cases b with
    | nil => simp [lexLt] at h
    | cons y ys =>
      simp only [lexLt] at h ⊢
      by_cases h1 : x < y
      · have : ¬ y < x := by omega
        simp [this, h1]
      · by_cases h2 : y < x
        · simp [h1, h2] at h
        · simp only [h1, h2, ↓reduceIte] at h ⊢
          exact ih ys h

theorem lexLt_trans : ∀ a b c : Bytes, lexLt a b = true → lexLt b c = true → lexLt a c = true := by
  intro a
  induction a with
  | nil =>
    intro b c h1 h2
    cases b with
    | nil => simp [lexLt] at h1
    | cons y ys => cases c with
      | nil => simp [lexLt] at h2
      | cons z zs => simp [lexLt]
  | cons x xs ih =>
    intro b c h1 h2
    cases b with
    | nil => simp [lexLt] at h1
    | cons y ys =>
      cases c with
      | nil => simp [lexLt] at h2
      | cons z zs =>
        simp only [lexLt] at h1 h2 ⊢
        by_cases hxy : x < y
        · by_cases hyz : y < z
          · have : x < z := by omega
            simp [this]
          · by_cases hzy : z < y
            · simp [hyz, hzy] at h2
            · have : x < z := by omega
              simp [this]
        · by_cases hyx : y < x
          · simp [hxy, hyx] at h1
          · simp only [hxy, hyx, ↓reduceIte] at h1
            have hxy' : x = y := by omega
            subst hxy'
            by_cases hyz : x < z
            · simp [hyz]
            · by_cases hzy : z < x
              · simp [hyz, hzy] at h2
              · simp only [hyz, hzy, ↓reduceIte] at h2 ⊢
                exact ih ys zs h1 h2

theorem lexLt_connex : ∀ a b : Bytes, a ≠ b → lexLt a b = true ∨ lexLt b a = true := by
  intro a
  induction a with
  | nil => intro b h; cases b with
    | nil => exact absurd rfl h
    | cons y ys => left; simp [lexLt]
  | cons x xs ih =>
    intro b h
    cases b with
    | nil => right; simp [lexLt]
    | cons y ys =>
      simp only [lexLt]
      by_cases hxy : x < y
      · left; simp [hxy]
      · by_cases hyx : y < x
        · right; simp [hyx]
        · have hxy' : x = y := by omega
          subst hxy'
          have hne : xs ≠ ys := fun e => h (by rw [e])
          simp only [Nat.lt_irrefl, ↓reduceIte]
          exact ih ys hne

variable {β : Type}

def KeyLt (p q : Bytes × β) : Prop := lexLt p.1 q.1 = true

theorem insertKV_perm (k : Bytes) (v : β) (l : List (Bytes × β)) :
    (insertKV k v l).Perm ((k, v) :: l) := by
  induction l with
  | nil => simp [insertKV]
  | cons p rest ih =>
    obtain ⟨k', v'⟩ := p
    simp only [insertKV]
    split
    · exact (List.Perm.cons _ ih).trans (List.Perm.swap _ _ _)
    · exact List.Perm.refl _

theorem insertKV_sorted (k : Bytes) (v : β) (l : List (Bytes × β))
    (hs : l.Pairwise KeyLt) (hk : ∀ p ∈ l, p.1 ≠ k) :
    (insertKV k v l).Pairwise KeyLt := by
  induction l with
  | nil => simp [insertKV]
  | cons p rest ih =>
    obtain ⟨k', v'⟩ := p
    simp only [insertKV]
    have hs' := List.pairwise_cons.mp hs
    split
    · rename_i hlt
      apply List.pairwise_cons.mpr
      refine ⟨?_, ih hs'.2 (fun q hq => hk q (List.mem_cons_of_mem _ hq))⟩
      intro q hq
      have hq' := (insertKV_perm k v rest).subset hq
      cases hq' with
      | head => exact hlt
      | tail _ hq'' => exact hs'.1 q hq''
    · rename_i hnlt
      have hne : k' ≠ k := hk (k', v') List.mem_cons_self
      have hlt : lexLt k k' = true := by
        cases lexLt_connex k' k hne with
        | inl h => exact absurd h hnlt
        | inr h => exact h
      apply List.pairwise_cons.mpr
      refine ⟨?_, hs⟩
      intro q hq
      cases hq with
      | head => exact hlt
      | tail _ hq' => exact lexLt_trans _ _ _ hlt (hs'.1 q hq')

theorem sortKV_perm (l : List (Bytes × β)) : (sortKV l).Perm l := by
  induction l with
  | nil => simp [sortKV]
  | cons p rest ih =>
    obtain ⟨k, v⟩ := p
    simp only [sortKV]
    exact (insertKV_perm k v _).trans (List.Perm.cons _ ih)

theorem sortKV_sorted (l : List (Bytes × β)) (hnd : (l.map Prod.fst).Nodup) :
    (sortKV l).Pairwise KeyLt := by
  induction l with
  | nil => simp [sortKV]
  | cons p rest ih =>
    obtain ⟨k, v⟩ := p
    simp only [sortKV]
    simp only [List.map_cons, List.nodup_cons] at hnd
    apply insertKV_sorted k v _ (ih hnd.2)
    intro q hq heq
    have hq' := (sortKV_perm rest).subset hq
    apply hnd.1
    rw [← heq]
    exact List.mem_map_of_mem hq'

/-- dictionaries with distinct keys: insertion order does not matter -/
theorem sortKV_perm_eq (l l' : List (Bytes × β)) (hp : l.Perm l')
    (hnd : (l.map Prod.fst).Nodup) : sortKV l = sortKV l' := by
  have hnd' : (l'.map Prod.fst).Nodup := (hp.map Prod.fst).nodup_iff.mp hnd
  apply List.Perm.eq_of_pairwise (le := KeyLt)
  · intro a b _ _ hab hba
    unfold KeyLt at hab hba
    rw [lexLt_asymm _ _ hab] at hba
    exact absurd hba (by simp)
  · exact sortKV_sorted l hnd
  · exact sortKV_sorted l' hnd'
  · exact (sortKV_perm l).trans (hp.trans (sortKV_perm l').symm)

theorem encKV_eq_map (kv : List (Bytes × PV)) : encKV kv = kv.map (fun p => (p.1, enc p.2)) := by
  induction kv with
  | nil => simp [encKV]
  | cons p rest ih => obtain ⟨k, v⟩ := p; simp [encKV, ih]

end Nanite.Hash
