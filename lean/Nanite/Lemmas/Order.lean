import Nanite.Model.Order
/-! Helper lemmas for the order model (C14). Core Lean only. -/
namespace Nanite.Order
variable {α : Type} [DecidableEq α]

/-- characterisation of one position of `check_order` -/
def GoodAt (T : Table α) (ids : List α) (cix : Nat) (pid : α) : Prop :=
  T.known pid = true ∧
  (∀ r ∈ T.req pid, r ∈ ids ∧ ids.idxOf r ≤ cix) ∧
  (∀ o ∈ T.opt pid, o ∈ ids → ids.idxOf o ≤ cix)

theorem checkAt_ok_iff (T : Table α) (ids : List α) (cix : Nat) (pid : α) :
    checkAt T ids cix pid = .ok () ↔ GoodAt T ids cix pid := by
  unfold checkAt GoodAt
  by_cases hk : T.known pid = true
  · simp only [hk, Bool.not_true, Bool.false_eq_true, ↓reduceIte, true_and]
    by_cases h1 : (T.req pid).any (fun r => !ids.contains r) = true
    · simp only [h1, ↓reduceIte, reduceCtorEq, false_iff]
      intro h
      simp only [List.any_eq_true, Bool.not_eq_eq_eq_not, Bool.not_true] at h1
      obtain ⟨r, hr, hc⟩ := h1
      have := (h.1 r hr).1
      simp_all
    · simp only [h1, Bool.false_eq_true, ↓reduceIte]
      have h1' : ∀ r ∈ T.req pid, r ∈ ids := by
        intro r hr
        simp only [List.any_eq_true, not_exists, not_and, Bool.not_eq_eq_eq_not] at h1
        have := h1 r hr
        simpa using this
      by_cases h2 : (T.req pid).any (fun r => decide (ids.idxOf r > cix)) = true
      · simp only [h2, ↓reduceIte, reduceCtorEq, false_iff]
        intro h
        simp only [List.any_eq_true, decide_eq_true_eq] at h2
        obtain ⟨r, hr, hc⟩ := h2
        have := (h.1 r hr).2
        omega
      · simp only [h2, Bool.false_eq_true, ↓reduceIte]
        have h2' : ∀ r ∈ T.req pid, ids.idxOf r ≤ cix := by
          intro r hr
          simp only [List.any_eq_true, decide_eq_true_eq, not_exists, not_and] at h2
          have := h2 r hr
          omega
        by_cases h3 : ((T.opt pid).filter (fun o => ids.contains o)).any
            (fun o => decide (ids.idxOf o > cix)) = true
        · simp only [h3, ↓reduceIte, reduceCtorEq, false_iff]
          intro h
          simp only [List.any_eq_true, List.mem_filter, decide_eq_true_eq] at h3
          obtain ⟨o, ⟨ho, hc⟩, hgt⟩ := h3
          have := h.2 o ho (by simpa using hc)
          omega
        · simp only [h3, Bool.false_eq_true, ↓reduceIte, true_iff]
          refine ⟨fun r hr => ⟨h1' r hr, h2' r hr⟩, ?_⟩
          intro o ho hmem
          simp only [List.any_eq_true, List.mem_filter, decide_eq_true_eq, not_exists,
            not_and, and_imp] at h3
          have := h3 o ho (by simpa using hmem)
          omega
  · simp [hk]

theorem checkFrom_ok_iff (T : Table α) (ids : List α) (i : Nat) (l : List α) :
    checkFrom T ids i l = .ok () ↔ ∀ j (h : j < l.length), GoodAt T ids (i + j) l[j] := by
  induction l generalizing i with
  | nil => simp [checkFrom]
  | cons p ps ih =>
    simp only [checkFrom, bind, Except.bind]
    constructor
    · intro h
      cases hc : checkAt T ids i p with
      | error e => simp [hc] at h
      | ok u =>
        simp only [hc] at h
        have hp := (checkAt_ok_iff T ids i p).1 (by cases u; exact hc)
        have hrest := (ih (i+1)).1 h
        intro j hj
        cases j with
        | zero => simpa using hp
        | succ j =>
          have := hrest j (by simpa using hj)
          simpa [Nat.add_assoc, Nat.add_comm 1 j] using this
    · intro h
      have hp : checkAt T ids i p = .ok () :=
        (checkAt_ok_iff T ids i p).2 (by
          have h0 := h 0 (by simp)
          simp only [List.getElem_cons_zero, Nat.add_zero] at h0
          exact h0)
      simp only [hp]
      apply (ih (i+1)).2
      intro j hj
      have := h (j+1) (by simpa using hj)
      simpa [Nat.add_assoc, Nat.add_comm 1 j] using this

/-- characterisation of one position of the acceptance loop of `preproc.apply` -/
theorem applyFrom_ok_iff (T : Table α) (avail ids : List α) (i : Nat) (l : List α) :
    applyFrom T avail ids i l = .ok () ↔
      ∀ j (h : j < l.length), l[j] ∈ avail ∧ ∀ r ∈ T.req l[j], r ∈ ids.take (i + j) := by
  induction l generalizing i with
  | nil => simp [applyFrom]
  | cons p ps ih =>
    simp only [applyFrom]
    by_cases ha : avail.contains p = true
    · simp only [ha, ↓reduceIte]
      by_cases hr : (T.req p).all (fun r => (ids.take i).contains r) = true
      · simp only [hr, ↓reduceIte]
        rw [ih (i+1)]
        constructor
        · intro h j hj
          cases j with
          | zero =>
            refine ⟨by simpa using ha, ?_⟩
            intro r hr'
            simp only [List.all_eq_true, List.contains_eq_mem, decide_eq_true_eq] at hr
            simpa using hr r hr'
          | succ j =>
            have := h j (by simpa using hj)
            simpa [Nat.add_assoc, Nat.add_comm 1 j] using this
        · intro h j hj
          have := h (j+1) (by simpa using hj)
          simpa [Nat.add_assoc, Nat.add_comm 1 j] using this
      · simp only [hr, Bool.false_eq_true, ↓reduceIte, reduceCtorEq, false_iff]
        intro h
        apply hr
        have := (h 0 (by simp)).2
        simp only [List.all_eq_true, List.contains_eq_mem, decide_eq_true_eq]
        intro r hr'
        simpa using this r hr'
    · simp only [ha, Bool.false_eq_true, ↓reduceIte, reduceCtorEq, false_iff]
      intro h
      apply ha
      have h0 := (h 0 (by simp)).1
      simp only [List.getElem_cons_zero] at h0
      simpa using h0

/-! ### `autosort` only permutes -/

theorem moveStep_perm (pid : α) (work : List α) (step : α) (w : List α)
    (h : moveStep pid work step = .ok w) : w.Perm work := by
  unfold moveStep at h
  split at h
  · rename_i cix rix hc hr
    split at h
    · injection h with h; subst h
      have hmem : step ∈ work := by
        unfold pyIndex at hr; split at hr <;> simp_all
      have hlen : cix ≤ (work.erase step).length := by
        have h1 : cix < work.length := by
          unfold pyIndex at hc; split at hc
          · injection hc with hc; subst hc; exact List.idxOf_lt_length_of_mem ‹_›
          · simp at hc
        rw [List.length_erase_of_mem hmem]; omega
      exact (List.perm_insertIdx step (work.erase step) hlen).trans
        (List.perm_cons_erase hmem).symm
    · injection h with h; subst h; exact List.Perm.refl _
  · simp at h

omit [DecidableEq α] in
theorem foldlM_perm {β : Type} (f : List α → β → Except Err (List α))
    (hf : ∀ w b w', f w b = .ok w' → w'.Perm w) :
    ∀ (bs : List β) (w w' : List α), bs.foldlM f w = .ok w' → w'.Perm w := by
  intro bs
  induction bs with
  | nil => intro w w' h; simp [List.foldlM, pure, Except.pure] at h; subst h; exact List.Perm.refl _
  | cons b bs ih =>
    intro w w' h
    simp only [List.foldlM, bind, Except.bind] at h
    cases hb : f w b with
    | error e => simp [hb] at h
    | ok w1 =>
      simp only [hb] at h
      exact (ih w1 w' h).trans (hf w b w1 hb)

theorem movePid_perm (T : Table α) (ids work : List α) (pid : α) (w : List α)
    (h : movePid T ids work pid = .ok w) : w.Perm work := by
  unfold movePid at h
  split at h
  · exact foldlM_perm (moveStep pid) (fun w b w' => moveStep_perm pid w b w') _ _ _ h
  · simp at h

theorem sortPass_perm (T : Table α) (ids work w : List α)
    (h : sortPass T ids work = .ok w) : w.Perm work :=
  foldlM_perm (movePid T ids) (fun w b w' => movePid_perm T ids w b w') _ _ _ h

theorem sortLoop_perm (T : Table α) (ids : List α) :
    ∀ (n : Nat) (work w : List α), sortLoop T ids n work = .ok w → w.Perm work := by
  intro n
  induction n with
  | zero => intro work w h; simp [sortLoop] at h; subst h; exact List.Perm.refl _
  | succ n ih =>
    intro work w h
    simp only [sortLoop, bind, Except.bind] at h
    cases hp : sortPass T ids work with
    | error e => simp [hp] at h
    | ok w1 =>
      simp only [hp] at h
      split at h
      · simp only [pure, Except.pure, Except.ok.injEq] at h; subst h
        exact sortPass_perm T ids work w1 hp
      · exact (ih w1 w h).trans (sortPass_perm T ids work w1 hp)

/-! ### membership in `selections` -/

theorem insertIdx_erase_idxOf (l : List α) (x : α) (h : x ∈ l) :
    (l.erase x).insertIdx (l.idxOf x) x = l := by
  induction l with
  | nil => simp at h
  | cons a as ih =>
    by_cases hax : a = x
    · subst hax; simp
    · have hmem : x ∈ as := by
        cases h with
        | head => exact absurd rfl hax
        | tail _ h => exact h
      have hne : (a == x) = false := by simpa using hax
      rw [List.erase_cons, hne, List.idxOf_cons, hne]
      simp only [Bool.false_eq_true, ↓reduceIte, cond_false, List.insertIdx_succ_cons]
      rw [ih hmem]

/-- every duplicate-free list over `xs` is enumerated by `selections xs` -/
theorem mem_selections (xs : List α) :
    ∀ l : List α, l.Nodup → (∀ a ∈ l, a ∈ xs) → l ∈ selections xs := by
  induction xs with
  | nil =>
    intro l _ hsub
    cases l with
    | nil => simp [selections]
    | cons a as => exact absurd (hsub a (by simp)) (by simp)
  | cons x xs ih =>
    intro l hnd hsub
    simp only [selections, List.mem_append, List.mem_flatMap, List.mem_map, List.mem_range]
    by_cases hx : x ∈ l
    · right
      refine ⟨l.erase x, ?_, l.idxOf x, ?_, insertIdx_erase_idxOf l x hx⟩
      · apply ih
        · exact hnd.erase x
        · intro a ha
          have hal : a ∈ l := List.mem_of_mem_erase ha
          have hne : a ≠ x := by
            intro h; subst h
            exact (List.Nodup.not_mem_erase hnd) ha
          cases hsub a hal with
          | head => exact absurd rfl hne
          | tail _ h => exact h
      · have := List.idxOf_lt_length_of_mem hx
        rw [List.length_erase_of_mem hx]; omega
    · left
      apply ih l hnd
      intro a ha
      cases hsub a ha with
      | head => exact absurd ha hx
      | tail _ h => exact h

end Nanite.Order
