/-! Witness for the defect repaired by a `fix:` commit for C18: undoing the path insertion with
`sys.path.remove(dir)` (first occurrence) after `sys.path.insert(-1, dir)` reorders the path
when `dir` was already on it. -/
namespace Nanite.C18W
def oldLoadPath (p : List String) (dir : String) : List String :=
  (p.insertIdx (p.length - 1) dir).erase dir

theorem c18w_remove_reorders :
    oldLoadPath ["d", "a", "b"] "d" = ["a", "d", "b"] ∧ oldLoadPath ["a", "b"] "d" = ["a", "b"] := by
  decide
end Nanite.C18W
