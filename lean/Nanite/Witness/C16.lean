import Nanite.Model.Container
/-! Witness for the defect repaired by the `fix:` commits for C16: with the old completeness test
of `load_hdf5` (only the presence of the dataset "fit"), a save that fails right after the "fit"
dataset was created leaves a group that passes the test although members the loader then reads
(e.g. "fit range", "user rate") are missing – the whole container became unreadable. -/
namespace Nanite.C16W
open Nanite.Container

def completeOld (g : Group) : Bool := (alookup g.dsets "fit").isSome

def x : Curve := Curve.mk "h" "h_0" "0" "p" "raw" [("fit model_key", "hertz_para")]
  [("fit", "a"), ("fit range", "b"), ("force", "c"), ("fit residuals", "d"), ("tip position", "e"),
   ("segment", "f")]
def u : User := User.mk "c" "n" "5" []

theorem c16w_partial_group_passed_old_test :
    (match (save empty x u (some 7)).1.ana "h_0" with
     | some g => completeOld g && !complete g && (alookup g.dsets "fit range").isNone
     | none => false) = true := by decide
end Nanite.C16W
