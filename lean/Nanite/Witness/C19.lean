import Nanite.Model.Profile
/-! Witnesses for the defects repaired by the `fix:` commit for C19. -/
namespace Nanite.C19W
open Nanite.Profile
/-- the old interval logic: the right bound was guarded by the *left* answer -/
def storeIntervalOld (cur : JV × JV) (left right : Option JV) : JV × JV :=
  (left.getD cur.1, match left with | some _ => right.getD cur.2 | none => cur.2)

theorem c19w_right_bound_ignored :
    (storeIntervalOld (.n "0", .n "0") none (some (.n "2"))).2 = .n "0" ∧
    (storeInterval (.n "0", .n "0") none (some (.n "2"))).2 = .n "2" := ⟨rfl, rfl⟩

theorem c19w_relative_not_fittable : fitterAcceptsRangeType "relative" = false := by decide
end Nanite.C19W
