import Nanite.Gen.Preproc
/-! Witness for the defect repaired by the `fix:` commit for C14: the single-pass `autosort`
(`autosort1`, the algorithm at the pinned commit) raises on 174 of the 1424 requirement-closed
selections.  Kept so that a regression to the single pass is recognised. -/
namespace Nanite.C14W
open Nanite.Order Nanite.Gen.Preproc

def bad1 (l : List Nat) : Bool :=
  closed table l && (match autosort1 table l with | .ok _ => false | .error _ => true)

theorem c14w_single_pass_fails_174 :
    ((selections table.steps).filter bad1).length = 174 := by decide +kernel

theorem c14w_single_pass_example :
    closed table [1, 0, 3, 2] = true ∧ autosort1 table [1, 0, 3, 2] = .error .valueErr := by
  decide +kernel
end Nanite.C14W
