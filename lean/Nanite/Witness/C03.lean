import Nanite.Model.Indent
/-! Witness for the recorded finding of C03/C06: after a *direct* edit of the stored preprocessing
setting (`idnt.fit_properties["preprocessing"] = […]`) the next fit runs on data that were produced
by the old pipeline, while the curve reports the new one. -/
namespace Nanite.C03W
open Nanite.Indent

def d : Settings := fun k =>
  if k = "model_key" then some (.tok "s:hertz_para") else if k = "range_type" then some (.tok "s:absolute")
  else if k = "preprocessing" then some (.steps []) else if k = "preprocessing_options" then some (.tok "{}")
  else Option.none

def hist : List Op :=
  [.pp [0, 3] "{}" [] false, .set "preprocessing" (.steps [0]), .fit [] [] (fun _ => ["a", "b", "c", "d", "e"])]

theorem c03w_direct_edit_of_preprocessing :
    (run d init hist).res.isSome = true ∧
    (run d init hist).cols = some { steps := [0, 3], opts := "{}" } ∧
    storedPipe (run d init hist) = some { steps := [0], opts := "{}" } := by decide
end Nanite.C03W
