import Mathlib.Algebra.Order.Field.Basic
import Mathlib.Tactic.NormNum
/-! Witness for the defect repaired by the `fix:` commit for C03/C10/C11: `_fit` multiplied the
*stored* initial contact point by k on every pass, so pass n started from kⁿ·cp₀. -/
namespace Nanite.C11W
/-- start values of the passes with the in-place scaling of the pinned commit -/
def passStartsInPlace (k cp0 : ℚ) : Nat → List ℚ
  | 0 => []
  | n + 1 => (k * cp0) :: passStartsInPlace k (k * cp0) n

theorem c11w_in_place_accumulates :
    passStartsInPlace (1 / 2) 8 4 = [4, 2, 1, 1 / 2] := by
  norm_num [passStartsInPlace]
end Nanite.C11W
