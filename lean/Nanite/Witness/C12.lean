import Nanite.Model.Hash
/-! Witness for the defect repaired by the `fix:` commit for C12: with the old encoding of lists
(plain concatenation of the item encodings) two different values of the single setting `range_x`
have the same bytes. -/
namespace Nanite.C12W
open Nanite.Hash
def b (s : String) : Bytes := s.toList.map Char.toNat
/-- `b"".join(obj2bytes(o) for o in obj)` – the encoding at the pinned commit -/
def concatOld (items : List Bytes) : Bytes := items.flatten

theorem c12w_concat_collision :
    concatOld [b "1.0", b "12.0"] = concatOld [b "1.01", b "2.0"] ∧
    frames [b "1.0", b "12.0"] ≠ frames [b "1.01", b "2.0"] := by decide +kernel
end Nanite.C12W
